------------------------------ MODULE MC_Arith ------------------------------
(***************************************************************************)
(* Definitional identities of BigNum / Arith, checked exhaustively by TLC  *)
(* on small universes (guards against a wrong specification).  Four parts  *)
(* (variable `part`); `ints` has its own configuration, the others run     *)
(* together.  N = 0 selects the reduced universes of the quick tier.       *)
(*   ints   (LimbDigits = 1) BigNum against TLC's integers on -N..N        *)
(*   laws   (LimbDigits = 4) ring / order laws on a boundary universe of   *)
(*          Bigs up to 2^256, wrapping against checked                     *)
(*   w8     (LimbDigits = 4) every pair of 8-bit operands: the native and  *)
(*          the Big definitions of every operation agree; wrapping is a    *)
(*          ring homomorphism (also for the synthetic width 4)             *)
(*   kleene the truth tables against the definition by completions         *)
(***************************************************************************)
EXTENDS Arith, TLC

CONSTANT N

(* ph = 0: only x is chosen (initial states, computed by TLC's main thread);   *)
(* ph = 1: y, z chosen by the Next action, so that the laws are evaluated by   *)
(* the worker threads                                                          *)
VARIABLES ph, part, x, y, z
vars == <<ph, part, x, y, z>>

(* --------------------------------- ints --------------------------------- *)
IntsInit == ph = 0 /\ part = "ints" /\ x \in -N..N /\ y = 0 /\ z = 0
IntsNext == ph = 0 /\ part = "ints" /\ ph' = 1 /\ y' \in -N..N /\ UNCHANGED <<part, x, z>>
ISign(a) == IF a < 0 THEN -1 ELSE IF a > 0 THEN 1 ELSE 0
IRoundDiv(a, m) == ISign(a) * ((2 * IAbs(a) + m) \div (2 * m))     \* half away from zero
IntsAgree ==
  (ph = 1 /\ part = "ints") =>
  LET a == FromInt(x)
      b == FromInt(y)
  IN /\ IsBig(a) /\ ToInt(a) = x
     /\ IsBig(Add(a, b)) /\ ToInt(Add(a, b)) = x + y
     /\ IsBig(Sub(a, b)) /\ ToInt(Sub(a, b)) = x - y
     /\ IsBig(Mul(a, b)) /\ ToInt(Mul(a, b)) = x * y
     /\ Cmp(a, b) = ISign(x - y)
     /\ Sign(a) = ISign(x) /\ ToInt(Neg(a)) = -x /\ ToInt(Abs(a)) = IAbs(x)
     /\ (y >= 0 /\ y < Base => ToInt(MulSmall(a, y)) = x * y)
     /\ \A k \in 0..3 :
          /\ ToInt(MulPow10(a, k)) = x * 10 ^ k
          /\ ToInt(Pow10(k)) = 10 ^ k
          /\ ToInt(TruncDivPow10(a, k)) = ITruncDiv(x, 10 ^ k)
          /\ ToInt(RoundDivPow10(a, k)) = IRoundDiv(x, 10 ^ k)
          /\ IsBig(TruncDivPow10(a, k)) /\ IsBig(RoundDivPow10(a, k))
          /\ DivisibleByPow10(a, k) = (x % (10 ^ k) = 0)
     /\ \A k \in {1, 2, 3, 7} :
          /\ ToInt(FloorDivSmall(a, k)) = x \div k          \* TLA+ \div is floor division
          /\ ToInt(TruncDivSmall(a, k)) = ITruncDiv(x, k)
          /\ IsBig(FloorDivSmall(a, k))
     /\ \A k \in 0..3 : ToInt(FloorDivPow10(a, k)) = x \div (10 ^ k) /\ IsBig(FloorDivPow10(a, k))
     /\ (y # 0 =>
          /\ IsTruncDiv(a, b, FromInt(ITruncDiv(x, y)), FromInt(ITruncRem(x, y)))
          /\ \A dq \in {-1, 1} :            \* no other pair passes: the quotient is determined
               ~IsTruncDiv(a, b, FromInt(ITruncDiv(x, y) + dq), FromInt(x - (ITruncDiv(x, y) + dq) * y))
          /\ \A lh \in {<<-8, 7>>, <<-128, 127>>, <<0, 15>>, <<0, 0>>} :
               TruncQuotIn(a, b, FromInt(lh[1]), FromInt(lh[2]))
                 = (lh[1] <= ITruncDiv(x, y) /\ ITruncDiv(x, y) <= lh[2]))
     /\ (y = 0 => ~IsTruncDiv(a, b, Zero, a))
     /\ (x >= 0 /\ x <= 24 => ToInt(Pow2(x)) = 2 ^ x)

(* --------------------------------- laws --------------------------------- *)
Mags == IF N = 0
        THEN { Zero, One, FromInt(10000), Sub(P2_63, One), Sub(Pow10(38), One), P2_255 }
        ELSE { Zero, One, FromInt(2), FromInt(9999), FromInt(10000), FromInt(10001), FromInt(99999999),
               FromInt(100000000), P2_31, P2_32, Sub(P2_63, One), P2_63, P2_64, P2_127, Sub(P2_128, One),
               Sub(Pow10(38), One), Pow10(38), P2_255, Sub(P2_256, One), Pow10(76) }
Univ == Mags \cup {Neg(m) : m \in Mags}
LawsInit == ph = 0 /\ part = "laws" /\ x \in Univ /\ y = Zero /\ z = Zero
LawsNext == ph = 0 /\ part = "laws" /\ ph' = 1 /\ y' \in Univ /\ z' \in Univ /\ UNCHANGED <<part, x>>
Widths == {<<32, 1>>, <<32, 0>>, <<64, 1>>, <<64, 0>>, <<128, 1>>, <<256, 1>>}
Laws ==
  (ph = 1 /\ part = "laws") =>
  /\ IsBig(Add(x, y)) /\ IsBig(Sub(x, y)) /\ IsBig(Mul(x, y))
  /\ Sub(Add(x, y), y) = x
  /\ Add(Sub(x, y), y) = x
  /\ Add(x, y) = Add(y, x)
  /\ Add(Add(x, y), z) = Add(x, Add(y, z))
  /\ Mul(x, y) = Mul(y, x)
  /\ Mul(x, Add(y, z)) = Add(Mul(x, y), Mul(x, z))
  /\ Mul(x, One) = x /\ Add(x, Zero) = x /\ Mul(x, Zero) = Zero /\ Add(x, Neg(x)) = Zero
  /\ Cmp(x, y) = -Cmp(y, x)
  /\ (Cmp(x, y) = 0) = (x = y)
  /\ (Le(x, y) /\ Le(y, z) => Le(x, z))
  /\ Cmp(x, y) = Sign(Sub(x, y))
  /\ \A k \in (IF N = 0 THEN {0, 1, 5, 38} ELSE {0, 1, 3, 4, 5, 18, 38}) :
       /\ MulPow10(x, k) = Mul(x, Pow10(k))
       /\ TruncDivPow10(MulPow10(x, k), k) = x
       /\ DivisibleByPow10(MulPow10(x, k), k)
       /\ LET q == RoundDivPow10(x, k)         \* |x - q*10^k| * 2 <= 10^k, ties away from zero
              e == Sub(x, MulPow10(q, k))
          IN /\ IsBig(q)
             /\ Cmp(MulSmall(Abs(e), 2), Pow10(k)) <= 0
             /\ (MulSmall(Abs(e), 2) = Pow10(k) => MagCmp(MulPow10(q, k).d, x.d) > 0)
       /\ LET t == TruncDivPow10(x, k)         \* |t*10^k| <= |x| < (|t|+1)*10^k
          IN /\ MagCmp(MulPow10(t, k).d, x.d) <= 0
             /\ MagCmp(x.d, MulPow10(Add(Abs(t), One), k).d) < 0
  /\ \A ws \in Widths :
       LET w == ws[1]  sg == ws[2] IN
       /\ BIn(w, sg, x) = (Le(BMin(w, sg), x) /\ Le(x, Sub(P2(IF sg = 1 THEN w - 1 ELSE w), One)))
       /\ (BIn(w, sg, x) /\ BIn(w, sg, y) =>
             \A op \in {"add", "sub", "neg"} :
               LET e == BExact(op, x, y)
                   r == BWrapNear(w, sg, e)
               IN /\ \E k \in {MinusOne, Zero, One} : BWrapOK(w, sg, e, r, k)
                  /\ (~BRowErr(op, w, sg, x, y) => r = e)         \* checked = wrapping when in range
                  /\ BRowErr(op, w, sg, x, y) = (r # e))

(* ---------------------------------- w8 ---------------------------------- *)
W8Xs == IF N = 0 THEN {-128, -1, 0, 3, 127, 128, 255} ELSE -128..255
W8Init == ph = 0 /\ part = "w8" /\ x \in W8Xs /\ y = 0 /\ z = 0
W8Next == ph = 0 /\ part = "w8" /\ ph' = 1 /\ y' \in -128..255 /\ UNCHANGED <<part, x, z>>
NatOps == {"add", "sub", "mul", "neg", "add_w", "sub_w", "mul_w", "neg_w", "div", "rem", "div_c",
           "rem_c", "div_w", "rem_w"}
CheckedOf(op) == CASE op = "add_w" -> "add" [] op = "sub_w" -> "sub" [] op = "mul_w" -> "mul" [] op = "neg_w" -> "neg"
(* witness of the relational Big form, computed with TLC's integers           *)
Wit(op, w, sg, a, b) ==
  CASE op \in DivOps -> IF b = 0 \/ IOverDiv(w, sg, a, b) THEN 0 ELSE ITruncRem(a, b)
    [] op \in RemOps -> IF b = 0 \/ IOverDiv(w, sg, a, b) THEN 0 ELSE ITruncDiv(a, b)
    [] op = "mul_w"  -> (a * b - IVal(op, w, sg, a, b)) \div (2 ^ w)
    [] OTHER -> 0
AgreeAt(w, sg, a, b) ==
  \A op \in NatOps :
    /\ IRowErr(op, w, sg, a, b) = BRowErr(op, w, sg, FromInt(a), FromInt(b))
    /\ (~IRowErr(op, w, sg, a, b) =>
          /\ IIn(w, sg, IVal(op, w, sg, a, b))
          /\ BRowVal(op, w, sg, FromInt(a), FromInt(b), FromInt(IVal(op, w, sg, a, b)),
                     FromInt(Wit(op, w, sg, a, b)))
          /\ (IVal(op, w, sg, a, b) # 0 /\ op # "mul_w" =>       \* and no other value passes
                ~BRowVal(op, w, sg, FromInt(a), FromInt(b), FromInt(IVal(op, w, sg, a, b) + 1),
                         FromInt(Wit(op, w, sg, a, b)))))
    /\ (op \in WrapOps =>
          /\ IIn(w, sg, IVal(op, w, sg, a, b))
          /\ (IVal(op, w, sg, a, b) - IExact(op, a, b)) % (2 ^ w) = 0
          /\ (~IRowErr(CheckedOf(op), w, sg, a, b) => IVal(op, w, sg, a, b) = IVal(CheckedOf(op), w, sg, a, b)))
W8Agree ==
  (ph = 1 /\ part = "w8") =>
  /\ (IIn(8, 1, x) /\ IIn(8, 1, y) => AgreeAt(8, 1, x, y))
  /\ (IIn(8, 0, x) /\ IIn(8, 0, y) => AgreeAt(8, 0, x, y))
  (* wrapping is a ring homomorphism Z -> Z/2^w (w = 4 synthetic, and 8)     *)
  /\ \A ws \in {<<4, 1>>, <<4, 0>>, <<8, 1>>, <<8, 0>>} : \A op \in {"add", "sub", "mul"} :
       IWrap(ws[1], ws[2], IExact(op, IWrap(ws[1], ws[2], x), IWrap(ws[1], ws[2], y)))
         = IWrap(ws[1], ws[2], IExact(op, x, y))
  (* 16-bit products: the byte-wise wrapping product against a second        *)
  (* derivation that stays inside TLC's integers                             *)
  /\ LET a == x * 256 + (y % 7)
         b == y * 255 - (x % 3)
     IN (IIn(16, 1, a) /\ IIn(16, 1, b)) =>
          /\ IMulWrap16(1, a, b) = IWrap(16, 1, a * b)
          /\ IRowErr("mul", 16, 1, a, b) = ~IIn(16, 1, a * b)
  /\ LET a == (x + 128) * 170 + 5
         b == (y + 128) * 171
         m == IF b < 32768 THEN (a * b) % 65536 ELSE (a * (b - 32768) + (a % 2) * 32768) % 65536
     IN (IIn(16, 0, a) /\ IIn(16, 0, b)) =>
          /\ IMulWrap16(0, a, b) = m
          /\ IRowErr("mul", 16, 0, a, b) = (a # 0 /\ b # 0 /\ a > 65535 \div b)

(* -------------------------------- kleene -------------------------------- *)
KleeneInit == ph = 0 /\ part = "kleene" /\ x \in 0..2 /\ y = 0 /\ z = 0
KleeneNext == ph = 0 /\ part = "kleene" /\ ph' = 1 /\ y' \in 0..2 /\ UNCHANGED <<part, x, z>>
And2(a, b) == a * b
Or2(a, b) == Max2(a, b)
AndNot2(a, b) == a * (1 - b)
Strict(f(_, _), a, b) == IF a = 2 \/ b = 2 THEN 2 ELSE f(a, b)
Kleene ==
  (ph = 1 /\ part = "kleene") =>
  /\ And3(x, y) = ByCompletion(And2, x, y)
  /\ Or3(x, y) = ByCompletion(Or2, x, y)
  /\ Not3(x) = (IF x = 2 THEN 2 ELSE 1 - x)
  /\ Not3(And3(x, y)) = Or3(Not3(x), Not3(y))           \* De Morgan
  /\ Not3(Or3(x, y)) = And3(Not3(x), Not3(y))
  /\ And3(x, y) = And3(y, x) /\ Or3(x, y) = Or3(y, x)
  /\ AndN(x, y) = Strict(And2, x, y)
  /\ OrN(x, y) = Strict(Or2, x, y)
  /\ AndNotN(x, y) = Strict(AndNot2, x, y)
  /\ (x # 2 /\ y # 2 => And3(x, y) = AndN(x, y) /\ Or3(x, y) = OrN(x, y))

IntsSpec == IntsInit /\ [][IntsNext]_vars
BigInit == LawsInit \/ W8Init \/ KleeneInit
BigNext == LawsNext \/ W8Next \/ KleeneNext
BigSpec == BigInit /\ [][BigNext]_vars
=============================================================================
