SPECIFICATION Spec
CONSTANTS
  ByteAlphabet = {0, 97, 127, 128, 255}
  MaxBytes = 4
  CodePoints = {0, 97, 127, 128, 2047, 2048, 55295, 57344, 65535, 65536, 1114111}
  MaxChars = 3
INVARIANTS ThmSound ThmCodec ThmUtf8Kept
CHECK_DEADLOCK FALSE
