--------------------------- MODULE MC_Congruence ---------------------------
(* Design check of the memo discipline: a sequence of observations is       *)
(* accepted by `Observe` step by step  iff  the set of observations is a    *)
(* function (so trace validation rejects exactly the non-congruent traces). *)
EXTENDS Congruence, TLC

CONSTANTS Keys, Outs, MaxLen

VARIABLES seen, ok      \* observations offered so far; all accepted so far
vars == <<memo, seen, ok>>

MCInit == Init /\ seen = {} /\ ok = TRUE

Offer(k, o) ==
  /\ Cardinality(seen) < MaxLen
  /\ seen' = seen \cup {<<k, o>>}
  /\ IF ok /\ Consistent(k, o)
     THEN Observe(k, o) /\ ok' = TRUE
     ELSE ok' = FALSE /\ UNCHANGED memo

MCNext == \E k \in Keys, o \in Outs : Offer(k, o)
MCSpec == MCInit /\ [][MCNext]_vars

AcceptedIffFunctional == ok = Functional(seen)
MemoIsTheObservations == ok => \A p \in seen : memo[p[1]] = p[2]
=============================================================================
