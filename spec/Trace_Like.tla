----------------------------- MODULE Trace_Like -----------------------------
(* impl -> spec (C20): every recorded call of a string kernel must return,  *)
(* row by row, what Like.tla defines.                                        *)
(*                                                                           *)
(* Event fields: op; for predicates  l, r = [s |-> Seq(Seq(Int)), v |-> Seq({0,1})] *)
(* (code points for strings, bytes for binary), ls / rs = scalar flags, ci, *)
(* neg, err, out = Seq({0,1,2}) (2 = null).  For functions see each case.   *)
EXTENDS Like, TraceBase

VARIABLE l

B(x) == IF x THEN 1 ELSE 0

NRows(ev) == IF ev.ls /\ ev.rs THEN 1 ELSE IF ev.ls THEN Len(ev.r.s) ELSE Len(ev.l.s)
LAt(ev, i) == IF ev.ls THEN 1 ELSE i
RAt(ev, i) == IF ev.rs THEN 1 ELSE i

Pred(ev, a, b) ==
  CASE ev.op = "like"        -> LikeM(a, b, ev.ci)
    [] ev.op = "starts_with" -> IsPrefix(b, a)
    [] ev.op = "ends_with"   -> IsSuffix(b, a)
    [] ev.op = "contains"    -> Contains(a, b)
    [] ev.op = "eq_ascii_ci" -> EqAsciiCase(a, b)
    [] ev.op = "regex_lit"   -> IF ev.ci THEN Contains(FoldSeq(a), FoldSeq(b)) ELSE Contains(a, b)

PredOk(ev) ==
  LET n == NRows(ev) IN
  IF ~ev.ls /\ ~ev.rs /\ Len(ev.l.s) # Len(ev.r.s) THEN ev.err
  ELSE /\ ~ev.err
       /\ Len(ev.out) = n
       /\ \A i \in 1..n :
            LET li == LAt(ev, i)
                ri == RAt(ev, i) IN
            ev.out[i] = IF ev.l.v[li] = 0 \/ ev.r.v[ri] = 0 THEN 2
                        ELSE B(Pred(ev, ev.l.s[li], ev.r.s[ri]) # ev.neg)

(* length / bit_length: x = [s (bytes), v]; out = Seq(Int), ov = validity    *)
LenOk(ev, mult) ==
  /\ ~ev.err /\ Len(ev.out) = Len(ev.x.s) /\ ev.ov = ev.x.v
  /\ \A i \in 1..Len(ev.out) : ev.x.v[i] = 1 => ev.out[i] = mult * Len(ev.x.s[i])

(* substring (byte based): x = [s (bytes), v]; isstr: char boundaries checked *)
SubstrOk(ev) ==
  LET bad == ev.isstr /\ \E i \in 1..Len(ev.x.s) :
               ev.x.v[i] = 1 /\ ~SubstrCutsOk(ev.x.s[i], ev.start, ev.haslen, ev.len)
  IN IF bad THEN ev.err
     ELSE /\ ~ev.err /\ Len(ev.out) = Len(ev.x.s) /\ ev.ov = ev.x.v
          /\ \A i \in 1..Len(ev.out) : ev.x.v[i] = 1 =>
                ev.out[i] = SubstrOf(ev.x.s[i], ev.start, ev.haslen, ev.len)

(* substring_by_char: x.s are code point sequences                            *)
SubstrCharOk(ev) ==
  /\ ~ev.err /\ Len(ev.out) = Len(ev.x.s) /\ ev.ov = ev.x.v
  /\ \A i \in 1..Len(ev.out) : ev.x.v[i] = 1 =>
        ev.out[i] = SubstrOf(ev.x.s[i], ev.start, ev.haslen, ev.len)

(* concat_elements: null if either side is null                               *)
ConcatOk(ev) ==
  IF Len(ev.a.s) # Len(ev.b.s) THEN ev.err
  ELSE /\ ~ev.err /\ Len(ev.out) = Len(ev.a.s)
       /\ \A i \in 1..Len(ev.out) :
            IF ev.a.v[i] = 0 \/ ev.b.v[i] = 0 THEN ev.ov[i] = 0
            ELSE ev.ov[i] = 1 /\ ev.out[i] = ev.a.s[i] \o ev.b.s[i]

Explains(ev) ==
  CASE ev.op \in {"like", "starts_with", "ends_with", "contains", "eq_ascii_ci", "regex_lit"} -> PredOk(ev)
    [] ev.op = "length"     -> LenOk(ev, 1)
    [] ev.op = "bit_length" -> LenOk(ev, 8)
    [] ev.op = "substring"  -> SubstrOk(ev)
    [] ev.op = "substring_by_char" -> SubstrCharOk(ev)
    [] ev.op = "concat"     -> ConcatOk(ev)

(* Known finding: the LIKE family panics (normalized_keys asserts a non-empty   *)
(* dictionary) when a dictionary-encoded operand has an empty dictionary, i.e.  *)
(* all of its rows are null.                                                     *)
(* Known finding: substring on 32-bit-offset arrays casts `length: u64` to the   *)
(* signed offset type (i32 / i64), so a length >= 2^31 resp. 2^63 wraps        *)
AllNull(x) == \A i \in 1..Len(x.v) : x.v[i] = 0
KF(ev) ==
  IF /\ ev.op \in {"like", "starts_with", "ends_with", "contains", "eq_ascii_ci"} /\ ev.err
     /\ \/ (ev.lenc = "dict" /\ AllNull(ev.l))
        \/ (ev.renc = "dict" /\ AllNull(ev.r))
     /\ (ev.ls \/ ev.rs \/ Len(ev.l.s) = Len(ev.r.s))
  THEN "C20-like-empty-dictionary-panics"
  ELSE IF ev.op = "substring" /\ ( \/ (ev.lenclass = "gt_i32" /\ ev.enc \in {"utf8", "bin", "dict"})
                             \/ ev.lenclass = "gt_i64" )
  THEN "C20-substring-length-cast-wraps" ELSE ""

Init == l = 1
Next == /\ l <= Len(Rec)
        /\ l' = l + 1
        /\ LET ev == Rec[l] IN JudgeKF(Explains(ev), l, ev.op, KF(ev))
Spec == Init /\ [][Next]_l
=============================================================================
