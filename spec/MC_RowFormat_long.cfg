SPECIFICATION Spec
CONSTANTS
  Alphabet = {0, 255}
  MaxLen = 9
  Mini = 2
  Count = 2
  MaxList = 1
INVARIANTS VarOrder VarDecode FixedOrder ListOrder
CHECK_DEADLOCK FALSE
