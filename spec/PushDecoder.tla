----------------------------- MODULE PushDecoder -----------------------------
(***************************************************************************)
(* The ParquetPushDecoder protocol (C15): parquet/src/arrow/push_decoder/  *)
(* {mod,remaining}.rs, reader_builder/{mod,data}.rs, util/push_buffers.rs, *)
(* arrow/in_memory_row_group.rs -- and, through it, the async              *)
(* ParquetRecordBatchStream, which drives the same decoder.                *)
(*                                                                         *)
(* File model (constants): row groups x columns; every column chunk is a   *)
(* run of pages (first row index of each page), optionally preceded by a   *)
(* dictionary page; every page is one unit of the abstract address space,  *)
(* chunks are laid out contiguously, the footer is the last unit.  A byte  *)
(* range is <<start, end>> (end exclusive).                                *)
(*                                                                         *)
(* The decoder is a small-step machine: `Call` enters try_decode /         *)
(* try_next_reader, internal steps run the transition loops of the three   *)
(* nested state machines until the call returns NeedsData(ranges) |        *)
(* Data | Finished.  Between calls the environment pushes ranges (exactly  *)
(* the requested ones, a subset, supersets up to the whole file, data of   *)
(* later row groups before it is asked for), clears the buffers, or        *)
(* rebuilds the decoder through into_builder at a row-group boundary.      *)
(*                                                                         *)
(* Properties (MC_PushDecoder): D1 the rows produced are a prefix of       *)
(* ParquetScan!Expected(cfg) and equal to it when Finished, whatever the   *)
(* schedule; D2 every requested range lies inside the file and inside a    *)
(* column chunk of a needed column of the active row group; D3 supplying   *)
(* the requested ranges allows progress (the next call never asks again    *)
(* for a range just supplied; with exact deliveries the number of requests *)
(* is at most groups x (predicates + 1); under fair delivery the decoder   *)
(* finishes); D4 data handed to a reader covers every page that reader     *)
(* touches -- also every row a mask chunk decodes, were the Mask strategy   *)
(* used; D6 batches have 1..batch size rows.                               *)
(***************************************************************************)
EXTENDS ParquetScan

CONSTANTS
  RgRows,      \* row count per row group
  NCols,       \* number of (leaf) columns
  Firsts,      \* Firsts[g][c] = first row index of every page of chunk (g, c)
  HasDict,     \* HasDict[c]: the chunks of column c start with a dictionary page
  HasIndex     \* the offset index is available to the reader

VARIABLES
  cfg,        \* scan configuration (ParquetScan) + proj (set of columns), predcols, bs, mode
  st,         \* "idle" | "filter" | "waitfilter" | "startdata" | "waitdata" | "decoding" | "finished"
  calling,    \* inside try_decode / try_next_reader
  queue, gsel, budget,          \* RowGroupFrontier: remaining groups, global selection, RowBudget
  cur, plan, k, chunks, req,    \* RowGroupReaderBuilder: active group, its plan, predicate index, retained data, DataRequest
  rows,       \* rows the active ParquetRecordBatchReader still has to produce
  buf,        \* PushBuffers: set of supplied ranges
  out, blens, \* ghost: rows and batch lengths produced
  lastNeed, fresh, nNeeds, exact, spent   \* ghost: protocol bookkeeping

vars == <<cfg, st, calling, queue, gsel, budget, cur, plan, k, chunks, req, rows, buf, out, blens,
          lastNeed, fresh, nNeeds, exact, spent>>

NG == Len(RgRows)
Cols == 1..NCols

(* ------------------------------ addresses ------------------------------ *)
ChunkUnits(g, c) == Len(Firsts[g][c]) + (IF HasDict[c] THEN 1 ELSE 0)
RECURSIVE UnitsBefore(_, _)
UnitsBefore(g, c) ==       \* units of all chunks before (g, c) in file order
  IF g = 1 /\ c = 1 THEN 0
  ELSE IF c = 1 THEN UnitsBefore(g - 1, NCols) + ChunkUnits(g - 1, NCols)
  ELSE UnitsBefore(g, c - 1) + ChunkUnits(g, c - 1)
ChunkStart(g, c) == UnitsBefore(g, c)
ChunkRange(g, c) == <<ChunkStart(g, c), ChunkStart(g, c) + ChunkUnits(g, c)>>
FirstPageAt(g, c) == ChunkStart(g, c) + (IF HasDict[c] THEN 1 ELSE 0)
PageRange(g, c, p) == <<FirstPageAt(g, c) + p - 1, FirstPageAt(g, c) + p>>
DictRange(g, c) == <<ChunkStart(g, c), ChunkStart(g, c) + 1>>
FileLen == UnitsBefore(NG, NCols) + ChunkUnits(NG, NCols) + 1
WholeFile == <<0, FileLen>>
RgRange(g) == <<ChunkStart(g, 1), ChunkRange(g, NCols)[2]>>

Within(r, s) == s[1] <= r[1] /\ r[2] <= s[2]
Has(b, r) == \E s \in b : Within(r, s)             \* PushBuffers::has_range: one supplied range contains it

(* --------------------------- what to fetch ----------------------------- *)
(* InMemoryRowGroup::fetch_ranges for the columns `cols` not yet retained.   *)
(* Result: the set of ranges, and per column the pages they hold ("all" =    *)
(* 0 stands for a dense chunk)                                               *)
ColPages(g, c, p, expand) ==
  IF ~(p.some /\ HasIndex) THEN {0}
  ELSE LET runs == IF expand THEN ExpandRuns(p.runs, cfg.bs, RgRows[g]) ELSE p.runs
           pgs == ScanPagesRuns(runs, Firsts[g][c]) IN
       {pgs[i] : i \in 1..Len(pgs)}
ColRanges(g, c, pages) ==
  IF pages = {0} THEN {ChunkRange(g, c)}
  ELSE {PageRange(g, c, p) : p \in pages} \cup (IF HasDict[c] THEN {DictRange(g, c)} ELSE {})
Need(g, cols, p, expandCols) == UNION {ColRanges(g, c, ColPages(g, c, p, c \in expandCols)) : c \in cols}

(* pages of column c holding any of the (1-based, group relative) positions  *)
PagesOfRows(g, c, positions) == {PageOf(Firsts[g][c], q - 1) : q \in positions}
Holds(pages, g, c, positions) == pages = {0} \/ PagesOfRows(g, c, positions) \subseteq pages


(* --------------------- mask execution over sparse pages ------------------ *)
(* With the Mask strategy every row covered by a mask chunk is decoded, so a  *)
(* chunk must stay inside rows whose pages are loaded for every projected     *)
(* column (reader_builder/mod.rs prepare_selection_for_page_skipping,         *)
(* selection/cursor.rs MaskCursor::next_chunk, arrow_reader/mod.rs            *)
(* read_mask_batch).                                                          *)
PageRowBits(g, c, pages) ==
  [q \in 1..RgRows[g] |-> IF pages = {0} \/ PageOf(Firsts[g][c], q - 1) \in pages THEN 1 ELSE 0]
RECURSIVE AndOver(_, _, _, _)
AndOver(g, cols, p, acc) ==
  IF cols = {} THEN acc
  ELSE LET c == CHOOSE x \in cols : TRUE
           pgs == ScanPagesRuns(p.runs, Firsts[g][c])
           b == PageRowBits(g, c, {pgs[i] : i \in 1..Len(pgs)}) IN
       AndOver(g, cols \ {c}, p, [q \in 1..RgRows[g] |-> IF acc[q] = 1 /\ b[q] = 1 THEN 1 ELSE 0])
(* loaded_row_ranges_for_projection as a 0/1 sequence; <<>> = no restriction  *)
LoadedFor(g, cols, p) ==
  IF ~(p.some /\ HasIndex) \/ cols = {} THEN <<>>
  ELSE LET b == AndOver(g, cols, p, Rep(1, RgRows[g])) IN
       IF \A q \in 1..Len(b) : b[q] = 1 THEN <<>> ELSE b
(* last row (1-based) of the loaded run containing row `at`; 0 if not loaded  *)
LoadedEnd(loaded, at) ==
  IF loaded[at] = 0 THEN 0
  ELSE CHOOSE e \in at..Len(loaded) :
         /\ \A j \in at..e : loaded[j] = 1
         /\ (e = Len(loaded) \/ loaded[e + 1] = 0)
(* all chunks of a read: ok = no internal error, dec = rows decoded, got =    *)
(* rows returned, in order; `inBatch` = rows already selected for the batch   *)
RECURSIVE MaskWalk(_, _, _, _, _, _)
MaskWalk(mask, pos, inBatch, loaded, bs, acc) ==
  IF pos >= Len(mask) THEN acc
  ELSE LET later == {i \in (pos + 1)..Len(mask) : mask[i] = 1} IN
       IF later = {} THEN [acc EXCEPT !.ok = FALSE]        \* trailing skips must have been trimmed
       ELSE LET start == CHOOSE i \in later : \A j \in later : i <= j
                rend == IF loaded = <<>> THEN Len(mask) ELSE LoadedEnd(loaded, start) IN
            IF rend = 0 THEN [acc EXCEPT !.ok = FALSE]     \* "selected row has no loaded page range"
            ELSE LET limit == bs - inBatch
                     cand == {e \in start..Min2(rend, Len(mask)) :
                                 mask[e] = 1 /\ Cardinality({j \in start..e : mask[j] = 1}) <= limit}
                     stop == CHOOSE e \in cand : \A f \in cand : f <= e
                     sel == {j \in start..stop : mask[j] = 1}
                     total == inBatch + Cardinality(sel)
                     RECURSIVE Ord(_)
                     Ord(S) == IF S = {} THEN <<>>
                               ELSE LET m == CHOOSE x \in S : \A y \in S : x <= y IN <<m>> \o Ord(S \ {m}) IN
                 MaskWalk(mask, stop, IF total >= bs THEN 0 ELSE total, loaded, bs,
                          [ok |-> acc.ok, dec |-> acc.dec \cup (start..stop), got |-> acc.got \o Ord(sel)])
MaskRead(g, cols, p, bs) ==
  MaskWalk(Bits(BuildPlan(p).runs), 0, 0, LoadedFor(g, cols, p), bs, [ok |-> TRUE, dec |-> {}, got |-> <<>>])

(* ------------------------------- config -------------------------------- *)
NP == Len(cfg.preds)
CacheCols == {cfg.predcols[i] : i \in 1..NP} \cap cfg.proj
ScanCfg == [rgs |-> cfg.rgs, hasSel |-> cfg.hasSel, sel |-> cfg.sel, preds |-> cfg.preds,
            offset |-> cfg.offset, limit |-> cfg.limit, bs |-> cfg.bs]
Exp == Expected(RgRows, ScanCfg)

InitWith(c) ==
  /\ cfg = c
  /\ st = "idle" /\ calling = FALSE
  /\ queue = c.rgs /\ gsel = c.sel /\ budget = [offset |-> c.offset, limit |-> c.limit]
  /\ cur = 0 /\ plan = NoPlan /\ k = 1 /\ chunks = [col \in Cols |-> {}] /\ req = {}
  /\ rows = <<>> /\ buf = {} /\ out = <<>> /\ blens = <<>>
  /\ lastNeed = {} /\ fresh = {} /\ nNeeds = 0 /\ exact = TRUE /\ spent = 0

(* ------------------------------ the calls ------------------------------ *)
Ret(result) == calling' = FALSE

Call == /\ ~calling
        /\ calling' = TRUE
        (* deliveries since the previous call are what `fresh` holds; a request   *)
        (* left partly unanswered makes the run inexact                           *)
        /\ exact' = (exact /\ \A r \in lastNeed : Has(buf, r))
        /\ UNCHANGED <<cfg, st, queue, gsel, budget, cur, plan, k, chunks, req, rows, buf, out, blens,
                       lastNeed, fresh, nNeeds, spent>>

RowsAfter(b, n) ==        \* RowBudget::rows_after
  LET a == IF b.offset >= 0 THEN (IF n > b.offset THEN n - b.offset ELSE 0) ELSE n IN
  IF b.limit >= 0 THEN Min2(a, b.limit) ELSE a
Advance(b, before, after) ==   \* RowBudget::advance
  [offset |-> IF b.offset >= 0 THEN (IF b.offset > before - after THEN b.offset - (before - after) ELSE 0) ELSE -1,
   limit |-> IF after # 0 /\ b.limit >= 0 THEN b.limit - after ELSE b.limit]

Finished == /\ st' = "finished" /\ queue' = <<>> /\ Ret("Finished")
            /\ lastNeed' = {} /\ fresh' = {}

(* RowGroupFrontier::next_readable_row_group, one queued group at a time     *)
NextRowGroup ==
  /\ calling /\ st = "idle"
  /\ UNCHANGED <<cfg, k, chunks, req, rows, buf, out, blens, nNeeds, exact, spent>>
  /\ IF queue = <<>> \/ budget.limit = 0 \/ (cfg.hasSel /\ Count(gsel) = 0)
     THEN Finished /\ UNCHANGED <<gsel, budget, cur, plan>>
     ELSE LET g == Head(queue) + 1
              rc == RgRows[g]
              head == IF cfg.hasSel THEN SplitHeadBits(gsel, rc) ELSE Rep(1, rc)
              selected == Count(head)
              p == IF selected = rc THEN NoPlan ELSE Plan(NF(head))
              after == RowsAfter(budget, selected) IN
          /\ queue' = Tail(queue)
          /\ gsel' = IF cfg.hasSel THEN SplitTailBits(gsel, rc) ELSE gsel
          /\ UNCHANGED <<calling, lastNeed, fresh>>
          /\ IF selected = 0 THEN UNCHANGED <<st, budget, cur, plan>>
             ELSE IF NP = 0 /\ after = 0
                  THEN budget' = Advance(budget, selected, after) /\ UNCHANGED <<st, cur, plan>>
             ELSE /\ cur' = g /\ plan' = p /\ UNCHANGED budget
                  /\ st' = IF NP > 0 THEN "filter" ELSE "startdata"

RowsOfCur == RgIds(RgRows, cur)

(* Filters: plan the request for the current predicate                       *)
PlanFilter ==
  /\ calling /\ st = "filter"
  /\ UNCHANGED <<cfg, calling, queue, gsel, budget, plan, k, rows, buf, out, blens, lastNeed, fresh, nNeeds, exact, spent>>
  /\ IF ~SelectsAny(plan)
     THEN st' = "idle" /\ cur' = 0 /\ chunks' = [col \in Cols |-> {}] /\ req' = {}
     ELSE LET c == cfg.predcols[k]
              pages == ColPages(cur, c, plan, c \in CacheCols) IN
          /\ st' = "waitfilter" /\ UNCHANGED cur
          /\ IF chunks[c] = {}
             THEN req' = ColRanges(cur, c, pages) /\ chunks' = [chunks EXCEPT ![c] = pages]
             ELSE req' = {} /\ UNCHANGED chunks

(* requests are counted as long as every earlier one was answered in full     *)
NeedsData(needed) ==
  /\ Ret("NeedsData") /\ lastNeed' = needed /\ fresh' = {} /\ nNeeds' = IF exact THEN nNeeds + 1 ELSE nNeeds

WaitFilter ==
  /\ calling /\ st = "waitfilter"
  /\ UNCHANGED <<cfg, queue, gsel, budget, cur, chunks, rows, out, blens, exact, spent>>
  /\ LET needed == {r \in req : ~Has(buf, r)} IN
     IF needed # {} THEN NeedsData(needed) /\ UNCHANGED <<st, plan, k, req, buf>>
     ELSE LET last == k = NP
              ml == IF last /\ budget.limit >= 0 THEN budget.limit + Max2(budget.offset, 0) ELSE -1 IN
          /\ plan' = WithPredicateLimited(RowsOfCur, plan, cfg.preds[k], ml)
          /\ buf' = buf \ req                        \* clear_ranges: exact matches only
          /\ req' = {}
          /\ k' = IF last THEN 1 ELSE k + 1
          /\ st' = IF last THEN "startdata" ELSE "filter"
          /\ UNCHANGED <<calling, lastNeed, fresh, nNeeds>>

StartData ==
  /\ calling /\ st = "startdata"
  /\ UNCHANGED <<cfg, calling, queue, gsel, k, rows, buf, out, blens, lastNeed, fresh, nNeeds, exact, spent>>
  /\ LET rc == RgRows[cur]
         before == PlanCount(plan, rc)
         after == RowsAfter(budget, before)
         p == BuildLimited(plan, rc, budget.offset, budget.limit)
         newcols == {c \in cfg.proj : chunks[c] = {}} IN
     /\ budget' = Advance(budget, before, after)
     /\ IF before = 0 \/ after = 0
        THEN st' = "idle" /\ cur' = 0 /\ plan' = NoPlan /\ chunks' = [col \in Cols |-> {}] /\ req' = {}
        ELSE /\ st' = "waitdata" /\ plan' = p /\ UNCHANGED cur
             /\ req' = Need(cur, newcols, p, {})
             /\ chunks' = [c \in Cols |-> IF c \in newcols THEN ColPages(cur, c, p, FALSE) ELSE chunks[c]]

ReaderRows == PlanRows(RowsOfCur, BuildPlan(plan))

WaitData ==
  /\ calling /\ st = "waitdata"
  /\ UNCHANGED <<cfg, queue, gsel, budget, k, exact, spent>>
  /\ LET needed == {r \in req : ~Has(buf, r)} IN
     IF needed # {} THEN NeedsData(needed) /\ UNCHANGED <<st, cur, plan, chunks, req, rows, buf, out, blens>>
     ELSE /\ buf' = buf \ req /\ req' = {}
          /\ UNCHANGED <<nNeeds, plan>>
          /\ IF cfg.mode = "reader"
             THEN (* try_next_reader hands the reader (and the retained chunks) over: *)
                  (* its rows are the caller's                                       *)
                  /\ out' = out \o ReaderRows /\ UNCHANGED blens /\ rows' = <<>>
                  /\ st' = "idle" /\ cur' = 0 /\ chunks' = [col \in Cols |-> {}]
                  /\ Ret("Data") /\ lastNeed' = {} /\ fresh' = {}
             ELSE /\ rows' = ReaderRows /\ st' = "decoding"
                  /\ UNCHANGED <<cur, out, blens, calling, chunks, lastNeed, fresh>>

Decode ==
  /\ calling /\ st = "decoding"
  /\ UNCHANGED <<cfg, queue, gsel, budget, k, req, buf, nNeeds, exact, spent, plan>>
  /\ IF rows = <<>>
     THEN st' = "idle" /\ cur' = 0 /\ chunks' = [col \in Cols |-> {}]
          /\ UNCHANGED <<calling, rows, out, blens, lastNeed, fresh>>
     ELSE LET n == Min2(Min2(cfg.bs, NumRows(RgRows)), Len(rows)) IN
          /\ out' = out \o SubSeq(rows, 1, n) /\ blens' = Append(blens, n)
          /\ rows' = SubSeq(rows, n + 1, Len(rows))
          /\ Ret("Data") /\ lastNeed' = {} /\ fresh' = {}
          /\ UNCHANGED <<st, cur, chunks>>

CallFinished == /\ calling /\ st = "finished" /\ Ret("Finished")
                /\ UNCHANGED <<cfg, st, queue, gsel, budget, cur, plan, k, chunks, req, rows, buf, out, blens,
                               lastNeed, fresh, nNeeds, exact, spent>>

Internal == NextRowGroup \/ PlanFilter \/ WaitFilter \/ StartData \/ WaitData \/ Decode \/ CallFinished

(* ---------------------------- environment ------------------------------ *)
EnvFrame == UNCHANGED <<cfg, st, calling, queue, gsel, budget, cur, plan, k, chunks, req, rows, out, blens,
                        lastNeed, nNeeds, exact>>
Push(R) == /\ ~calling /\ st # "finished" /\ buf' = buf \cup R /\ fresh' = fresh \cup R /\ EnvFrame

(* exactly what was asked, in one or several calls, any order (a set)        *)
PushExact == lastNeed # {} /\ ~(\A r \in lastNeed : Has(buf, r)) /\ Push(lastNeed) /\ UNCHANGED spent
(* non-exact deliveries are bounded by MaxOdd per behaviour                  *)
PushSubset(MaxOdd) ==
  /\ spent < MaxOdd /\ spent' = spent + 1
  /\ \E S \in SUBSET lastNeed : S # {} /\ S # lastNeed /\ Push(S)
PushSuperset(MaxOdd) ==
  /\ spent < MaxOdd /\ spent' = spent + 1 /\ lastNeed # {}
  /\ \/ Push({WholeFile})
     \/ \E g \in 1..NG : (\A r \in lastNeed : Within(r, RgRange(g))) /\ Push({RgRange(g)})
     \/ Push({CHOOSE s \in {ChunkRange(g, c) : g \in 1..NG, c \in Cols} : Within(r, s) : r \in lastNeed})
(* unrequested data arrives together with an answer or before the first call *)
AtStart == nNeeds = 0 /\ out = <<>> /\ st = "idle" /\ cur = 0
PushEarly(MaxOdd) ==
  /\ spent < MaxOdd /\ spent' = spent + 1 /\ (lastNeed # {} \/ AtStart)
  /\ \/ Push({WholeFile})
     \/ \E g \in 1..NG : Push({RgRange(g)})
     \/ \E g \in 1..NG, c \in Cols : Push({ChunkRange(g, c)})
     \/ \E g \in 1..NG, c \in Cols : \E p \in 1..Len(Firsts[g][c]) : Push({PageRange(g, c, p)})
ClearAll(MaxOdd) ==
  /\ ~calling /\ st # "finished" /\ spent < MaxOdd /\ spent' = spent + 1 /\ buf # {} /\ lastNeed # {}
  /\ buf' = {} /\ fresh' = {} /\ exact' = FALSE
  /\ UNCHANGED <<cfg, st, calling, queue, gsel, budget, cur, plan, k, chunks, req, rows, out, blens, lastNeed, nNeeds>>
(* into_builder + build at a row-group boundary: remaining groups, selection, *)
(* budget and buffers are carried; the batch size may change                 *)
Rebuild(BatchSizes, MaxOdd) ==
  /\ ~calling /\ st = "idle" /\ cur = 0 /\ queue # <<>> /\ spent < MaxOdd /\ spent' = spent + 1
  /\ \E b \in BatchSizes : b # cfg.bs /\ cfg' = [cfg EXCEPT !.bs = b]
  /\ chunks' = [col \in Cols |-> {}]
  /\ UNCHANGED <<st, calling, queue, gsel, budget, cur, plan, k, req, rows, buf, out, blens,
                 lastNeed, fresh, nNeeds, exact>>

(* ------------------------------ properties ----------------------------- *)
IsPrefix(s, t) == Len(s) <= Len(t) /\ SubSeq(t, 1, Len(s)) = s

D1_Prefix == IsPrefix(out, Exp)
D1_Complete == st = "finished" => out = Exp

NeededCols == cfg.proj \cup {cfg.predcols[i] : i \in 1..NP}
InChunk(r) == /\ 0 <= r[1] /\ r[1] < r[2] /\ r[2] < FileLen          \* never the footer
              /\ cur # 0 /\ \E c \in NeededCols : Within(r, ChunkRange(cur, c))
D2_InBounds == /\ \A r \in req : InChunk(r)
               /\ ~calling => \A r \in lastNeed : InChunk(r)

Returned == calling /\ ~calling'
(* sufficiency: a NeedsData never contains a range the environment supplied   *)
(* since the previous call (what was supplied need not be supplied again)     *)
D3_Sufficient == [][(Returned /\ st' \in {"waitfilter", "waitdata"}) => \A r \in lastNeed' : ~Has(fresh, r)]_vars
(* with every request answered in full, at most one request per phase         *)
D3_Bound == exact => nNeeds <= Len(cfg.rgs) * (NP + 1)

(* every page a reader touches was fetched; for columns served through the   *)
(* predicate cache, every page of the cache batches it touches                *)
D4_Covered ==
  /\ st \in {"waitdata", "decoding"} =>
        LET bits == Bits(BuildPlan(plan).runs) IN
        \A c \in cfg.proj :
           /\ chunks[c] # {}
           /\ plan.some => Holds(chunks[c], cur, c, Positions(bits))
           /\ (plan.some /\ c \in CacheCols) =>
                 Holds(chunks[c], cur, c, Positions(ExpandBits(bits, cfg.bs, RgRows[cur])))
  /\ st = "waitfilter" =>
        LET c == cfg.predcols[k] IN
        /\ chunks[c] # {}
        /\ plan.some => Holds(chunks[c], cur, c, Positions(Bits(plan.runs)))

(* were the Mask strategy used: no chunk error, exactly the selected rows in   *)
(* order, and no decoded row on a page that was not fetched                   *)
D4_MaskChunks ==
  /\ (st \in {"waitdata", "decoding"} /\ plan.some) =>
        LET w == MaskRead(cur, cfg.proj, plan, cfg.bs)
            m == Bits(BuildPlan(plan).runs) IN
        /\ w.ok /\ Len(w.got) = Count(m) /\ \A i \in 1..Len(w.got) : m[w.got[i]] = 1 /\ (i > 1 => w.got[i - 1] < w.got[i])
        /\ \A c \in cfg.proj : Holds(chunks[c], cur, c, w.dec)
  /\ (st = "waitfilter" /\ plan.some) =>
        LET c == cfg.predcols[k]
            w == MaskRead(cur, {c}, plan, cfg.bs) IN
        /\ w.ok /\ Len(w.got) = SumSel(plan.runs)
        /\ Holds(chunks[c], cur, c, w.dec)

D6_Batches == [][blens' # blens => (blens'[Len(blens')] >= 1 /\ blens'[Len(blens')] <= Min2(cfg.bs, NumRows(RgRows)))]_vars

AllDone == st = "finished"
=============================================================================
