------------------------------ MODULE Coalescer ------------------------------
(***************************************************************************)
(* BatchCoalescer of arrow-select/src/coalesce.rs (C03).                   *)
(*                                                                         *)
(* Rows are identified by positive integers (0 = the null row a null take  *)
(* index produces).  One action per public call; the internal split loop   *)
(* of push_batch (coalesce.rs:498-525) and finish_buffered_batch are pure  *)
(* operators so the trace specification can reuse them on logged calls.    *)
(*                                                                         *)
(* Every batch placed in the completed queue carries the reason it was     *)
(* produced: "full" (split loop / buffer reached the target), "finish"     *)
(* (finish_buffered_batch on a partial buffer, also the case-2 flush) and  *)
(* "bypass" (large-batch bypass, only with a limit configured).            *)
(***************************************************************************)
EXTENDS Naturals, Sequences, FiniteSets

CONSTANT NoLimit            \* value standing for biggest_coalesce_batch_size = None

VARIABLES
  target,        \* target_batch_size (fixed after Init)
  special,       \* TRUE iff every column has a sparse filter copy (primitive / view)
  limit,         \* biggest_coalesce_batch_size, NoLimit or a natural
  everLimited,   \* ghost: a limit has been configured at some point
  buffered,      \* rows sitting in the in-progress arrays
  completed,     \* FIFO of finished batches [rows, kind]
  pending        \* ghost: every selected row pushed and not yet handed out, in order

vars == <<target, special, limit, everLimited, buffered, completed, pending>>

Batch(rows, kind) == [rows |-> rows, kind |-> kind]

RECURSIVE Flat(_)
Flat(bs) == IF bs = <<>> THEN <<>> ELSE Head(bs).rows \o Flat(Tail(bs))

St(buf, comp) == [buf |-> buf, comp |-> comp]

(* finish_buffered_batch (coalesce.rs:560-584)                               *)
FinishEff(tgt, buf, comp) ==
  IF buf = <<>> THEN St(buf, comp)
  ELSE St(<<>>, Append(comp, Batch(buf, IF Len(buf) = tgt THEN "full" ELSE "finish")))

(* the split loop and the final "reached the target" check                   *)
RECURSIVE CoalesceEff(_, _, _, _)
CoalesceEff(tgt, buf, comp, rows) ==
  LET room == tgt - Len(buf) IN
  IF Len(rows) > room
  THEN CoalesceEff(tgt, <<>>,
                   Append(comp, Batch(buf \o SubSeq(rows, 1, room), "full")),
                   SubSeq(rows, room + 1, Len(rows)))
  ELSE LET b2 == buf \o rows IN
       IF Len(b2) >= tgt THEN St(<<>>, Append(comp, Batch(b2, "full")))
       ELSE St(b2, comp)

(* push_batch (coalesce.rs:251-551); path is reported for coverage           *)
PushPath(tgt, lim, buf, rows) ==
  IF rows = <<>> THEN "empty"
  ELSE IF lim # NoLimit /\ Len(rows) > lim
       THEN IF buf = <<>> THEN "bypass1"
            ELSE IF Len(buf) > lim THEN "bypass2" ELSE "coalesce3"
       ELSE "coalesce"

PushEff(tgt, lim, buf, comp, rows) ==
  LET p == PushPath(tgt, lim, buf, rows) IN
  CASE p = "empty"   -> St(buf, comp)
    [] p = "bypass1" -> St(buf, Append(comp, Batch(rows, "bypass")))
    [] p = "bypass2" -> St(<<>>, Append(Append(comp, Batch(buf, "finish")), Batch(rows, "bypass")))
    [] OTHER         -> CoalesceEff(tgt, buf, comp, rows)

(* push_batch_with_filter (coalesce.rs:607-675).  n = batch rows, flen =    *)
(* filter length, sel = the rows the filter selects.                        *)
FilterPath(tgt, spc, lim, buf, n, flen, sel) ==
  LET c == Len(sel) IN
  IF flen > n THEN "err"
  ELSE IF c = 0 THEN "none"
  ELSE IF c = n /\ flen = n THEN "all"
  ELSE LET exceeds == lim # NoLimit /\ c > lim
           nofit   == c > tgt - Len(buf)
           dense   == ~(c <= flen \div 16)
       IN IF exceeds \/ ~spc \/ nofit \/ dense THEN "materialise" ELSE "sparse"

FilterEff(tgt, spc, lim, buf, comp, n, flen, sel) ==
  LET p == FilterPath(tgt, spc, lim, buf, n, flen, sel) IN
  CASE p \in {"err", "none"}        -> St(buf, comp)
    [] p \in {"all", "materialise"} -> PushEff(tgt, lim, buf, comp, sel)
    [] OTHER -> LET b2 == buf \o sel IN
                IF Len(b2) >= tgt THEN St(<<>>, Append(comp, Batch(b2, "full")))
                ELSE St(b2, comp)

-----------------------------------------------------------------------------
(* Actions.  `rows`/`sel` are supplied by the environment (MC: fresh ids).   *)

Push(rows) ==
  LET e == PushEff(target, limit, buffered, completed, rows) IN
  /\ buffered' = e.buf /\ completed' = e.comp
  /\ pending' = pending \o rows
  /\ UNCHANGED <<target, special, limit, everLimited>>

PushFiltered(n, flen, sel) ==
  LET e == FilterEff(target, special, limit, buffered, completed, n, flen, sel) IN
  /\ buffered' = e.buf /\ completed' = e.comp
  /\ pending' = IF flen > n THEN pending ELSE pending \o sel
  /\ UNCHANGED <<target, special, limit, everLimited>>

(* push_batch_with_indices = take_record_batch, then push_batch              *)
PushIndices(taken) == Push(taken)

Finish ==
  LET e == FinishEff(target, buffered, completed) IN
  /\ buffered' = e.buf /\ completed' = e.comp
  /\ UNCHANGED <<target, special, limit, everLimited, pending>>

(* next_completed_batch: pops the oldest batch; its rows leave `pending`.    *)
NextCompleted ==
  /\ completed # <<>>
  /\ completed' = Tail(completed)
  /\ pending' = SubSeq(pending, Len(Head(completed).rows) + 1, Len(pending))
  /\ UNCHANGED <<target, special, limit, everLimited, buffered>>

SetLimit(l) ==
  /\ limit' = l
  /\ everLimited' = (everLimited \/ l # NoLimit)
  /\ UNCHANGED <<target, special, buffered, completed, pending>>

-----------------------------------------------------------------------------
(* Properties (DESIGN.md C03 I1-I4)                                          *)

AllBatches == completed      \* every batch handed out was in `completed` first

I1_BufferBelowTarget == Len(buffered) < target

I2_ExactSizes ==
  \A i \in 1..Len(AllBatches) :
    LET b == AllBatches[i] IN
    /\ b.kind = "full" => Len(b.rows) = target
    /\ b.kind = "finish" => (0 < Len(b.rows) /\ Len(b.rows) < target)
    /\ b.kind = "bypass" => everLimited
    /\ ~everLimited => b.kind \in {"full", "finish"}

(* rows are never lost, duplicated or reordered: what is queued and buffered *)
(* is exactly what was pushed and not yet handed out, in push order          *)
I3_RowsConserved == Flat(completed) \o buffered = pending

I4_NoEmptyBatch == \A i \in 1..Len(AllBatches) : AllBatches[i].rows # <<>>

(* next_completed_batch hands out the oldest rows first                      *)
FifoPop == [][ Len(completed') < Len(completed) =>
               /\ completed' = Tail(completed)
               /\ Head(completed).rows \o pending' = pending ]_vars
=============================================================================
