----------------------------- MODULE ParquetScan -----------------------------
(***************************************************************************)
(* Parquet scans with pushdown (C06).                                      *)
(*                                                                         *)
(* File model: a sequence `rgRows` of row-group row counts; the rows of    *)
(* the file carry the ids 0 .. N-1 in file order (the drivers write an id  *)
(* column, and every other column is a function of the id).                *)
(*                                                                         *)
(* Scan configuration `cfg`:                                               *)
(*   rgs     sequence of 0-based row-group indices (with_row_groups; the   *)
(*           default is all groups in order)                               *)
(*   hasSel, sel   with_row_selection: 0/1 sequence over the rows of the   *)
(*           chosen groups, concatenated in the order of `rgs`             *)
(*   preds   with_row_filter: one mask per predicate over the rows of the  *)
(*           FILE (index id + 1): 1 = true, 0 = false, 2 = null -- the     *)
(*           value of the predicate function on a full read                *)
(*   offset, limit   -1 when not set                                       *)
(*   bs      batch size (the reader caps it at the row count of the file)  *)
(*                                                                         *)
(* Part 1 is the statement: `Expected` = read everything, then apply, in   *)
(* memory and in this order, row-group choice, selection, predicates (each *)
(* on the survivors of the previous ones; null = false), offset, limit.    *)
(* Part 2 models how the readers get there (ReadPlanBuilder, RowBudget,    *)
(* cursors) with the run list algorithms of RowSelection; MC_ParquetScan   *)
(* checks part 2 against part 1 for every configuration of a tiny file.    *)
(***************************************************************************)
EXTENDS RowSelection

RECURSIVE SumSeq(_)
SumSeq(s) == IF s = <<>> THEN 0 ELSE Head(s) + SumSeq(Tail(s))

NumRows(rgRows) == SumSeq(rgRows)
Base(rgRows, g) == SumSeq(SubSeq(rgRows, 1, g - 1))             \* g is 1-based
RgIds(rgRows, g) == [i \in 1..rgRows[g] |-> Base(rgRows, g) + i - 1]

RECURSIVE ChosenIds(_, _)
ChosenIds(rgRows, rgs) ==
  IF rgs = <<>> THEN <<>> ELSE RgIds(rgRows, Head(rgs) + 1) \o ChosenIds(rgRows, Tail(rgs))

RECURSIVE PickFrom(_, _, _)
PickFrom(rows, bits, i) ==
  IF i > Len(rows) THEN <<>>
  ELSE (IF i <= Len(bits) /\ bits[i] = 1 THEN <<rows[i]>> ELSE <<>>) \o PickFrom(rows, bits, i + 1)
(* the rows at the selected positions; positions past the end of the         *)
(* selection are not selected                                                *)
Pick(rows, bits) == PickFrom(rows, bits, 1)

(* rows (ids) for which the predicate is true; null (2) counts as false      *)
Keep(rows, pred) == Pick(rows, [i \in 1..Len(rows) |-> IF pred[rows[i] + 1] = 1 THEN 1 ELSE 0])

RECURSIVE KeepAll(_, _)
KeepAll(rows, preds) == IF preds = <<>> THEN rows ELSE KeepAll(Keep(rows, Head(preds)), Tail(preds))

Drop(rows, k) == SubSeq(rows, Min2(k, Len(rows)) + 1, Len(rows))
Take(rows, k) == SubSeq(rows, 1, Min2(k, Len(rows)))

(* ---------------------------------------------------------------------- *)
(* Part 1: the reference result                                            *)
(* ---------------------------------------------------------------------- *)
Expected(rgRows, cfg) ==
  LET chosen == ChosenIds(rgRows, cfg.rgs)
      selected == IF cfg.hasSel THEN Pick(chosen, cfg.sel) ELSE chosen
      kept == KeepAll(selected, cfg.preds)
      afterOff == IF cfg.offset >= 0 THEN Drop(kept, cfg.offset) ELSE kept
  IN IF cfg.limit >= 0 THEN Take(afterOff, cfg.limit) ELSE afterOff

(* no batch is empty or larger than the batch size (itself capped at the     *)
(* number of rows of the file); the batches add up to `n` rows               *)
BatchesOk(blens, bs, fileRows, n) ==
  /\ \A i \in 1..Len(blens) : blens[i] >= 1 /\ blens[i] <= Min2(bs, fileRows)
  /\ SumSeq(blens) = n

(* the same, row group at a time with the budget carried along (how the     *)
(* push decoder and the async stream proceed; MC checks it equals Expected)  *)
RECURSIVE ExpectedByGroup(_, _, _, _, _, _)
ExpectedByGroup(rgRows, rgs, sel, hasSel, preds, budget) ==
  IF rgs = <<>> THEN <<>>
  ELSE LET g == Head(rgs) + 1
           n == rgRows[g]
           rows == IF hasSel THEN Pick(RgIds(rgRows, g), SubSeq(sel, 1, Min2(n, Len(sel)))) ELSE RgIds(rgRows, g)
           kept == KeepAll(rows, preds)
           off == IF budget.offset >= 0 THEN budget.offset ELSE 0
           afterOff == Drop(kept, off)
           emit == IF budget.limit >= 0 THEN Take(afterOff, budget.limit) ELSE afterOff
           b2 == [offset |-> IF budget.offset >= 0 THEN off - Min2(off, Len(kept)) ELSE -1,
                  limit |-> IF budget.limit >= 0 THEN budget.limit - Len(emit) ELSE -1]
       IN emit \o ExpectedByGroup(rgRows, Tail(rgs), SubSeq(sel, Min2(n, Len(sel)) + 1, Len(sel)), hasSel, preds, b2)

(* ---------------------------------------------------------------------- *)
(* Part 2: the read plan (read_plan.rs) and the cursors (arrow_reader/     *)
(* mod.rs next_inner, selection/cursor.rs)                                 *)
(* A plan is [some |-> BOOLEAN, runs |-> run list]; some = FALSE reads all  *)
(* ---------------------------------------------------------------------- *)
NoPlan == [some |-> FALSE, runs |-> <<>>]
Plan(rs) == [some |-> TRUE, runs |-> rs]
SelectsAny(plan) == ~plan.some \/ \E i \in 1..Len(plan.runs) : plan.runs[i][2] = 0
PlanRows(rows, plan) == IF plan.some THEN Pick(rows, Bits(plan.runs)) ELSE rows
PlanCount(plan, rowCount) == IF plan.some THEN SumSel(plan.runs) ELSE rowCount

(* ReadPlanBuilder::with_predicate: evaluate on the rows the plan reads,    *)
(* and_then the outcome; an all-true outcome leaves the plan as it is.      *)
(* `cut` = Len(filt) when there is no match limit; otherwise the number of  *)
(* matches after which evaluation stops (the rest is padded with false)     *)
WithPredicateLimited(rows, plan, pred, matchLimit) ==
  LET input == PlanRows(rows, plan)
      filt0 == [i \in 1..Len(input) |-> IF pred[input[i] + 1] = 1 THEN 1 ELSE 0]
      filt == IF matchLimit >= 0
              THEN [i \in 1..Len(filt0) |-> IF filt0[i] = 1 /\ Rank(filt0, i) <= matchLimit THEN 1 ELSE 0]
              ELSE filt0
      raw == FromFilters(<<filt>>)
  IN IF \A i \in 1..Len(filt) : filt[i] = 1 THEN plan
     ELSE IF plan.some THEN Plan(AndThenRuns(plan.runs, raw).runs) ELSE Plan(raw)
WithPredicate(rows, plan, pred) == WithPredicateLimited(rows, plan, pred, -1)

(* LimitedReadPlanBuilder::build_limited                                     *)
BuildLimited(plan, rowCount, offset, limit) ==
  LET p0 == IF SelectsAny(plan) THEN plan ELSE Plan(<<>>)
      p1 == IF offset < 0 THEN p0
            ELSE IF rowCount < offset THEN Plan(<<>>)
            ELSE IF p0.some THEN Plan(OffsetRuns(p0.runs, offset))
            ELSE Plan(Normalise(<<Skp(offset), Sel(rowCount - offset)>>))
      p2 == IF limit < 0 THEN p1
            ELSE IF p1.some THEN Plan(LimitRuns(p1.runs, limit))
            ELSE Plan(Normalise(<<Sel(Min2(limit, rowCount))>>))
  IN p2

(* ReadPlanBuilder::build: an empty selection is truncated, trailing skips   *)
(* are trimmed; policy "Selectors" | "Mask" | "Auto" resolves to a cursor    *)
BuildPlan(plan) == IF ~plan.some THEN plan
                   ELSE IF ~SelectsAny(plan) THEN Plan(<<>>) ELSE Plan(TrimRuns(plan.runs))
Strategy(plan, policy, threshold) ==
  IF policy = "Auto" THEN (IF plan.some THEN AutoStrategy(plan.runs, threshold) ELSE "Selectors")
  ELSE policy

(* One call of next_inner with the selectors cursor.  The array reader holds *)
(* `total` rows and stands at `pos` (rows consumed).  Result: positions read *)
(* (1-based into the reader's rows), remaining runs, new pos                 *)
RECURSIVE SelBatchLoop(_, _, _, _, _)
SelBatchLoop(runs, pos, total, bs, got) ==
  IF Len(got) >= bs \/ runs = <<>> THEN [got |-> got, runs |-> runs, pos |-> pos]
  ELSE LET front == Head(runs) IN
       IF front[2] = 1 THEN SelBatchLoop(Tail(runs), Min2(pos + front[1], total), total, bs, got)
       ELSE IF front[1] = 0 THEN SelBatchLoop(Tail(runs), pos, total, bs, got)
       ELSE LET need == bs - Len(got)
                toRead == IF front[1] > need THEN need ELSE front[1]
                rest == IF front[1] > need THEN Cons(Sel(front[1] - need), Tail(runs)) ELSE Tail(runs)
                rec == Min2(toRead, total - pos) IN
            IF rec = 0 THEN [got |-> got, runs |-> rest, pos |-> pos]
            ELSE SelBatchLoop(rest, pos + rec, total, bs, got \o [i \in 1..rec |-> pos + i])
SelectorsBatch(runs, pos, total, bs) == SelBatchLoop(runs, pos, total, bs, <<>>)

(* One call of read_mask_batch without loaded-range limits: skip to the      *)
(* first selected row, cover rows until bs are selected or the mask ends     *)
MaskBatch(bits, pos, bs) ==
  LET later == {i \in (pos + 1)..Len(bits) : bits[i] = 1} IN
  IF later = {} THEN [got |-> <<>>, pos |-> Len(bits)]
  ELSE LET start == CHOOSE i \in later : \A j \in later : i <= j
           enough == {e \in start..Len(bits) : Cardinality({j \in start..e : bits[j] = 1}) >= bs}
           stop == IF enough = {} THEN Len(bits) ELSE CHOOSE e \in enough : \A f \in enough : e <= f
       IN [got |-> PickFrom([i \in 1..stop |-> i], [i \in 1..stop |-> IF i >= start THEN bits[i] ELSE 0], 1),
           pos |-> stop]
=============================================================================
