------------------------------- MODULE Arith -------------------------------
(***************************************************************************)
(* Arithmetic, aggregation and boolean kernels of arrow-arith (C12).       *)
(*                                                                         *)
(* Integers of width 8 and 16 are TLC integers ("I" operators); wider      *)
(* integers, decimals, timestamps, durations and interval fields are Bigs  *)
(* of BigNum ("B" operators).  The arithmetic is defined here; the Rust    *)
(* driver only encodes operands and results.                               *)
(*                                                                         *)
(* Checked operation: the exact result if it lies in the value range of    *)
(* the result's physical type (width w, signedness sg), an error           *)
(* otherwise (also for a zero divisor).  Wrapping operation: the exact     *)
(* result modulo 2^w.  Division truncates towards zero and the remainder   *)
(* has the sign of the dividend (Rust `/`, `%`); for Bigs both are stated  *)
(* relationally (IsTruncDiv) and checked against a logged witness.         *)
(*                                                                         *)
(* Operation names.  Kernel level (arrow_arith::numeric): add sub mul div  *)
(* rem neg add_w sub_w mul_w neg_w.  Native level (ArrowNativeTypeOp):     *)
(* the same plus div_c (= div) rem_c div_w rem_w.                          *)
(***************************************************************************)
EXTENDS BigNum

Max2(a, b) == IF a >= b THEN a ELSE b
Min2(a, b) == IF a <= b THEN a ELSE b
IAbs(a) == IF a < 0 THEN -a ELSE a

AddOps == {"add", "add_w"}
SubOps == {"sub", "sub_w"}
MulOps == {"mul", "mul_w"}
NegOps == {"neg", "neg_w"}
DivOps == {"div", "div_c", "div_w"}
RemOps == {"rem", "rem_c", "rem_w"}
WrapOps == {"add_w", "sub_w", "mul_w", "neg_w"}

(* --------------------- native integers, w in {4, 8, 16} ------------------ *)
IMin(w, sg) == IF sg = 1 THEN -(2 ^ (w - 1)) ELSE 0
IMax(w, sg) == IF sg = 1 THEN 2 ^ (w - 1) - 1 ELSE 2 ^ w - 1
IIn(w, sg, x) == IMin(w, sg) <= x /\ x <= IMax(w, sg)

(* x modulo 2^w as a value of the type                                      *)
IWrap(w, sg, x) ==
  LET m == 2 ^ w
      r == x % m
  IN IF sg = 1 /\ r >= 2 ^ (w - 1) THEN r - m ELSE r

ITruncDiv(a, b) == LET q == IAbs(a) \div IAbs(b) IN IF (a < 0) = (b < 0) THEN q ELSE -q
ITruncRem(a, b) == a - ITruncDiv(a, b) * b

(* the exact mathematical result (products of 16-bit operands may exceed    *)
(* TLC's integers, they go through Bigs: see IRowErr / IRowVal)             *)
IExact(op, a, b) ==
  CASE op \in AddOps -> a + b
    [] op \in SubOps -> a - b
    [] op \in MulOps -> a * b
    [] op \in NegOps -> -a

(* a*b modulo 2^16 without leaving TLC's integers (byte-wise product)         *)
IMulWrap16(sg, a, b) ==
  LET x  == a % 65536
      y  == b % 65536
      xl == x % 256
      xh == x \div 256
      yl == y % 256
      yh == y \div 256
  IN IWrap(16, sg, xl * yl + ((xh * yl + xl * yh) % 256) * 256)

IOverDiv(w, sg, a, b) == sg = 1 /\ a = IMin(w, sg) /\ b = -1      \* MIN / -1, MIN % -1

(* ------------------------------ Big integers ----------------------------- *)
P2_7 == Pow2(7)        P2_8 == Pow2(8)       P2_15 == Pow2(15)     P2_16 == Pow2(16)
P2_31 == Pow2(31)      P2_32 == Pow2(32)     P2_63 == Pow2(63)     P2_64 == Pow2(64)
P2_127 == Pow2(127)    P2_128 == Pow2(128)   P2_255 == Pow2(255)   P2_256 == Pow2(256)
P2(k) == CASE k = 7 -> P2_7 [] k = 8 -> P2_8 [] k = 15 -> P2_15 [] k = 16 -> P2_16
           [] k = 31 -> P2_31 [] k = 32 -> P2_32 [] k = 63 -> P2_63 [] k = 64 -> P2_64
           [] k = 127 -> P2_127 [] k = 128 -> P2_128 [] k = 255 -> P2_255 [] k = 256 -> P2_256
           [] OTHER -> Pow2(k)
MinusOne == Neg(One)

BMin(w, sg) == IF sg = 1 THEN Neg(P2(w - 1)) ELSE Zero
BIn(w, sg, x) ==
  IF sg = 1 THEN (IF x.s = 1 THEN MagCmp(x.d, P2(w - 1).d) <= 0 ELSE MagCmp(x.d, P2(w - 1).d) < 0)
  ELSE x.s = 0 /\ MagCmp(x.d, P2(w).d) < 0

BExact(op, a, b) ==
  CASE op \in AddOps -> Add(a, b)
    [] op \in SubOps -> Sub(a, b)
    [] op \in MulOps -> Mul(a, b)
    [] op \in NegOps -> Neg(a)

(* x modulo 2^w when x is at most one modulus away from the range            *)
(* (sums, differences and negations of values of the type)                  *)
BWrapNear(w, sg, x) ==
  IF BIn(w, sg, x) THEN x
  ELSE IF BIn(w, sg, Sub(x, P2(w))) THEN Sub(x, P2(w)) ELSE Add(x, P2(w))

(* r = x modulo 2^w as a value of the type, with witness k: x = r + k*2^w.   *)
(* r is unique (the range has exactly 2^w values)                           *)
BWrapOK(w, sg, x, r, k) == BIn(w, sg, r) /\ x = Add(r, Mul(k, P2(w)))

BOverDiv(w, sg, a, b) == sg = 1 /\ a = BMin(w, sg) /\ b = MinusOne

(* Does the operation on one pair of values report an error?                 *)
BRowErr(op, w, sg, a, b) ==
  CASE op \in {"add", "sub", "mul", "neg"} -> ~BIn(w, sg, BExact(op, a, b))
    [] op \in {"div", "div_c", "rem_c"}    -> IsZero(b) \/ BOverDiv(w, sg, a, b)
    [] op \in {"rem", "div_w", "rem_w"}    -> IsZero(b)   \* *_w: documented panic on a zero divisor
    [] OTHER                               -> FALSE

(* Is `out` the value of the operation (when it reports no error)?  `wit` is *)
(* the witness of the relational forms: the quotient for a remainder, the    *)
(* multiple of 2^w for a wrapping product (a quotient needs none: its        *)
(* remainder is a - out*b)                                                    *)
BRowVal(op, w, sg, a, b, out, wit) ==
  CASE op \in {"add", "sub", "mul", "neg"}   -> out = BExact(op, a, b)
    [] op \in {"add_w", "sub_w", "neg_w"}    -> out = BWrapNear(w, sg, BExact(op, a, b))
    [] op = "mul_w"                          -> BWrapOK(w, sg, Mul(a, b), out, wit)
    [] op \in DivOps -> IF BOverDiv(w, sg, a, b) THEN out = BMin(w, sg)     \* only div_w gets here
                        ELSE IsTruncDiv(a, b, out, Sub(a, Mul(out, b)))
    [] op \in RemOps -> IF BOverDiv(w, sg, a, b) THEN IsZero(out)
                        ELSE IsTruncDiv(a, b, wit, out)

(* the same two questions for TLC integers; `wit` is not needed              *)
IRowErr(op, w, sg, a, b) ==
  CASE op = "mul" /\ w > 8                 -> ~BIn(w, sg, Mul(FromInt(a), FromInt(b)))
    [] op \in {"add", "sub", "mul", "neg"} -> ~IIn(w, sg, IExact(op, a, b))
    [] op \in {"div", "div_c", "rem_c"}    -> b = 0 \/ IOverDiv(w, sg, a, b)
    [] op \in {"rem", "div_w", "rem_w"}    -> b = 0
    [] OTHER                               -> FALSE

(* the value (when no error is reported)                                      *)
IVal(op, w, sg, a, b) ==
  CASE op = "mul_w" /\ w > 8              -> IMulWrap16(sg, a, b)
    [] op \in {"add", "sub", "mul", "neg"} -> IExact(op, a, b)
    [] op \in WrapOps                      -> IWrap(w, sg, IExact(op, a, b))
    [] op \in DivOps -> IF IOverDiv(w, sg, a, b) THEN IMin(w, sg) ELSE ITruncDiv(a, b)
    [] op \in RemOps -> IF IOverDiv(w, sg, a, b) THEN 0 ELSE ITruncRem(a, b)
IRowVal(op, w, sg, a, b, out) == out = IVal(op, w, sg, a, b)

(* --------------------------------- decimals ------------------------------ *)
(* DecimalN(p, s): value * 10^-s, physical type: signed integer of width N.  *)
DecMaxP(w) == CASE w = 32 -> 9 [] w = 64 -> 18 [] w = 128 -> 38 [] w = 256 -> 76
DecMaxS(w) == DecMaxP(w)
DecTypeValid(w, p, s) == p >= 1 /\ p <= DecMaxP(w) /\ s <= DecMaxS(w) /\ (s > 0 => s <= p)

DecOp(op) == CASE op \in AddOps -> "add" [] op \in SubOps -> "sub" [] op \in MulOps -> "mul"
               [] op \in NegOps -> "neg" [] OTHER -> op      \* wrapping decimal forms are checked

(* result precision and scale (numeric.rs:989-1095, Hive / SQL rules);        *)
(* kind: "ok", "err" (the kernel must refuse: no valid result type) or        *)
(* "free" (the documented formula gives no precision: nothing is required)    *)
DecResType(op, w, p1, s1, p2, s2) ==
  LET o == DecOp(op) IN
  CASE o \in {"add", "sub"} ->
         LET s == Max2(s1, s2)
             p == Min2(s + Max2(p1 - s1, p2 - s2) + 1, DecMaxP(w))
         IN [kind |-> IF DecTypeValid(w, p, s) THEN "ok" ELSE "err", p |-> p, s |-> s]
    [] o = "mul" ->
         LET s == s1 + s2
             p == Min2(p1 + p2 + 1, DecMaxP(w))
         IN [kind |-> IF s <= DecMaxS(w) /\ DecTypeValid(w, p, s) THEN "ok" ELSE "err", p |-> p, s |-> s]
    [] o = "div" ->
         LET s  == Min2(s1 + 4, DecMaxS(w))
             pp == s - s1 + s2 + p1
             p  == Min2(pp, DecMaxP(w))
         IN [kind |-> IF pp <= 0 THEN "free" ELSE IF DecTypeValid(w, p, s) THEN "ok" ELSE "err",
             p |-> p, s |-> s]
    [] o = "rem" ->
         LET s == Max2(s1, s2)
             p == Min2(s + Min2(p1 - s1, p2 - s2), DecMaxP(w))
         IN [kind |-> IF DecTypeValid(w, p, s) THEN "ok" ELSE "err", p |-> p, s |-> s]
    [] o = "neg" -> [kind |-> "ok", p |-> p1, s |-> s1]

(* powers of ten by which the two operands are multiplied before the integer  *)
(* operation, so that the result has the result scale                         *)
DecScaleUp(op, w, s1, s2) ==
  LET o == DecOp(op) IN
  CASE o \in {"add", "sub", "rem"} -> LET s == Max2(s1, s2) IN <<s - s1, s - s2>>
    [] o = "div" -> LET mp == Min2(s1 + 4, DecMaxS(w)) - s1 + s2
                    IN IF mp >= 0 THEN <<mp, 0>> ELSE <<0, -mp>>
    [] OTHER -> <<0, 0>>

DecA(op, w, s1, s2, l) == MulPow10(l, DecScaleUp(op, w, s1, s2)[1])
DecB(op, w, s1, s2, r) == MulPow10(r, DecScaleUp(op, w, s1, s2)[2])

DecRowErr(op, w, s1, s2, l, r) ==
  LET o == DecOp(op)
      A == DecA(op, w, s1, s2, l)
      B == DecB(op, w, s1, s2, r)
  IN CASE o \in {"add", "sub", "mul"} -> ~BIn(w, 1, BExact(o, A, B))
       [] o = "neg" -> ~BIn(w, 1, Neg(l))
       [] o = "div" -> IsZero(r) \/ ~TruncQuotIn(A, B, P2(w - 1), Sub(P2(w - 1), One))
       [] o = "rem" -> IsZero(r)

DecRowVal(op, w, s1, s2, l, r, out, wit) ==
  LET o == DecOp(op)
      A == DecA(op, w, s1, s2, l)
      B == DecB(op, w, s1, s2, r)
  IN CASE o \in {"add", "sub", "mul"} -> out = BExact(o, A, B)
       [] o = "neg" -> out = Neg(l)
       [] o = "div" -> IsTruncDiv(A, B, out, Sub(A, Mul(out, B)))
       [] o = "rem" -> IsTruncDiv(A, B, wit, out)

(* the kernel multiplies in the native width before operating: an operand     *)
(* (or the power of ten itself) that does not fit although the exact result   *)
(* does is the known finding of DESIGN.md 5.2                                 *)
DecIntermediateOverflow(op, w, s1, s2, l, r) ==
  ~BIn(w, 1, DecA(op, w, s1, s2, l)) \/ ~BIn(w, 1, DecB(op, w, s1, s2, r))
DecMultiplierOverflow(op, w, s1, s2) ==
  LET k == DecScaleUp(op, w, s1, s2) IN ~BIn(w, 1, Pow10(k[1])) \/ ~BIn(w, 1, Pow10(k[2]))

(* bitwise folds on non-negative integers below 2^16 (wider values are logged *)
(* as sequences of 16-bit chunks)                                             *)
RECURSIVE BitOp(_, _, _, _)
BitOp(f, a, b, n) ==       \* f in {"and", "or", "xor"} on n bits
  IF n = 0 THEN 0
  ELSE LET x == a % 2
           y == b % 2
           z == CASE f = "and" -> x * y [] f = "or" -> Max2(x, y) [] f = "xor" -> (x + y) % 2
       IN z + 2 * BitOp(f, a \div 2, b \div 2, n - 1)
(* -------------------- dates / timestamps +- day-time intervals ------------ *)
(* The kernels go through chrono dates: a date +- (days, ms) is the date moved *)
(* by `days` and by the whole days of `ms` (towards zero); every intermediate   *)
(* date must lie in chrono's range -262143-01-01 .. 262142-12-31                *)
ChronoMinDay == FromInt(-96465293)
ChronoMaxDay == FromInt(95026236)
InChronoDays(d) == Le(ChronoMinDay, d) /\ Le(d, ChronoMaxDay)
ChronoMinS == FromWire(<<1, 5200, 131, 3346, 8>>)       \* -8334601315200 s
ChronoMaxS == FromWire(<<0, 6799, 6687, 2102, 8>>)      \*  8210266876799 s
InChronoS(sec) == Le(ChronoMinS, sec) /\ Le(sec, ChronoMaxS)
MsPerDay == 86400000
(* whole days of a millisecond count, towards zero (a Big below 2^63)          *)
TruncDaysOfMs(x) == TruncDivSmall(TruncDivPow10(x, 5), 864)
(* sgn = 1 (add) or -1 (sub); iv = <<days, ms>>: [err, v] in days               *)
DateShift(d0, sgn, iv) ==
  LET dd == IF sgn = 1 THEN iv[1] ELSE Neg(iv[1])
      md == TruncDaysOfMs(IF sgn = 1 THEN iv[2] ELSE Neg(iv[2]))
      d1 == Add(d0, dd)
      d2 == Add(d1, md)
  IN [err |-> ~(InChronoDays(d0) /\ InChronoDays(d1) /\ InChronoDays(d2)), v |-> d2]
Date32Shift(a, sgn, iv) == DateShift(a, sgn, iv)
Date64Shift(a, sgn, iv) ==
  LET r == DateShift(TruncDaysOfMs(a), sgn, iv) IN [err |-> r.err, v |-> Mul(r.v, FromInt(MsPerDay))]
(* timestamp of unit 10^-e s in a fixed-offset zone: the offset cancels          *)
TsShift(ts, e, sgn, iv) ==
  LET dd == IF sgn = 1 THEN iv[1] ELSE Neg(iv[1])
      ms == IF sgn = 1 THEN iv[2] ELSE Neg(iv[2])
      x  == IF e >= 3 THEN Add(ts, Add(MulPow10(Mul(dd, FromInt(86400)), e), MulPow10(ms, e - 3)))
            ELSE FloorDivPow10(Add(MulPow10(ts, 3), Add(Mul(dd, FromInt(MsPerDay)), ms)), 3)
      s0 == FloorDivPow10(ts, e)
      s1 == Add(s0, Mul(dd, FromInt(86400)))
  IN [err |-> ~(InChronoS(s0) /\ InChronoS(s1) /\ BIn(64, 1, x) /\ InChronoS(FloorDivPow10(x, e))), v |-> x]

(* ------------------------ fixed point multiplication ---------------------- *)
(* multiply_fixed_point*(Decimal128(p1,s1), Decimal128(p2,s2), required scale): *)
(* the product rounded half away from zero to the required scale                 *)
FixedPointType(p1, s1, p2, s2, req) ==
  [err |-> req > s1 + s2, p |-> Min2(p1 + p2 + 1, 38), s |-> req]
FixedPointVal(a, b, s1, s2, req) == RoundDivPow10(Mul(a, b), s1 + s2 - req)

(* ------------------------- bitwise kernels, w <= 16 ----------------------- *)
IUns(w, x) == x % (2 ^ w)                                \* the bit pattern as a natural number
IBitwise(op, w, sg, a, b) ==
  CASE op \in {"and", "or", "xor"} -> IWrap(w, sg, BitOp(op, IUns(w, a), IUns(w, b), w))
    [] op = "and_not" -> IWrap(w, sg, BitOp("and", IUns(w, a), (2 ^ w - 1) - IUns(w, b), w))
    [] op = "not"     -> IWrap(w, sg, (2 ^ w - 1) - IUns(w, a))
    [] op = "shl"     -> IWrap(w, sg, IUns(w, a) * 2 ^ (b % w))     \* wrapping_shl: shift modulo the width
    [] op = "shr"     -> a \div (2 ^ (b % w))                        \* arithmetic for signed, logical for unsigned

(* --------------------------------- aggregates ---------------------------- *)
RECURSIVE SumFrom(_, _, _)
SumFrom(vals, valid, i) ==      \* exact sum of the valid rows i..
  IF i > Len(vals) THEN Zero
  ELSE IF valid[i] = 1 THEN Add(vals[i], SumFrom(vals, valid, i + 1)) ELSE SumFrom(vals, valid, i + 1)

(* some prefix sum (valid rows in index order) leaves the range               *)
RECURSIVE PrefixOverflow(_, _, _, _, _, _)
PrefixOverflow(w, sg, vals, valid, i, acc) ==
  IF i > Len(vals) THEN FALSE
  ELSE IF valid[i] = 0 THEN PrefixOverflow(w, sg, vals, valid, i + 1, acc)
  ELSE LET x == Add(acc, vals[i]) IN ~BIn(w, sg, x) \/ PrefixOverflow(w, sg, vals, valid, i + 1, x)

RECURSIVE ProdFrom(_, _, _)
ProdFrom(vals, valid, i) ==
  IF i > Len(vals) THEN One
  ELSE IF valid[i] = 1 THEN Mul(vals[i], ProdFrom(vals, valid, i + 1)) ELSE ProdFrom(vals, valid, i + 1)

RECURSIVE PrefixProdOverflow(_, _, _, _, _, _)
PrefixProdOverflow(w, sg, vals, valid, i, acc) ==
  IF i > Len(vals) THEN FALSE
  ELSE IF valid[i] = 0 THEN PrefixProdOverflow(w, sg, vals, valid, i + 1, acc)
  ELSE LET x == Mul(acc, vals[i]) IN ~BIn(w, sg, x) \/ PrefixProdOverflow(w, sg, vals, valid, i + 1, x)

AnyValid(valid) == \E i \in 1..Len(valid) : valid[i] = 1

(* v is the least / greatest valid value                                      *)
IsMinOf(vals, valid, v) ==
  /\ \E i \in 1..Len(vals) : valid[i] = 1 /\ vals[i] = v
  /\ \A i \in 1..Len(vals) : valid[i] = 1 => Le(v, vals[i])
IsMaxOf(vals, valid, v) ==
  /\ \E i \in 1..Len(vals) : valid[i] = 1 /\ vals[i] = v
  /\ \A i \in 1..Len(vals) : valid[i] = 1 => Le(vals[i], v)

(* floats: IEEE-754 totalOrder on keys <<sign, magnitude limbs (16 bit, most  *)
(* significant first)>>: negatives before positives, negatives by decreasing  *)
(* magnitude (so -NaN < -inf < ... < -0 < +0 < ... < +inf < +NaN)              *)
RECURSIVE LexCmp(_, _, _)
LexCmp(a, b, i) == IF i > Len(a) THEN 0
                   ELSE IF a[i] < b[i] THEN -1 ELSE IF a[i] > b[i] THEN 1 ELSE LexCmp(a, b, i + 1)
FloatLe(a, b) ==
  IF a[1] # b[1] THEN a[1] = 1
  ELSE IF a[1] = 0 THEN LexCmp(a, b, 2) <= 0 ELSE LexCmp(a, b, 2) >= 0
IsFloatMinOf(keys, valid, k) ==
  /\ \E i \in 1..Len(keys) : valid[i] = 1 /\ keys[i] = k
  /\ \A i \in 1..Len(keys) : valid[i] = 1 => FloatLe(k, keys[i])
IsFloatMaxOf(keys, valid, k) ==
  /\ \E i \in 1..Len(keys) : valid[i] = 1 /\ keys[i] = k
  /\ \A i \in 1..Len(keys) : valid[i] = 1 => FloatLe(keys[i], k)

ChunkOp(f, a, b) == [j \in 1..Len(a) |-> BitOp(f, a[j], b[j], 16)]
RECURSIVE BitFold(_, _, _, _, _)
BitFold(f, rows, valid, i, acc) ==
  IF i > Len(rows) THEN acc
  ELSE BitFold(f, rows, valid, i + 1, IF valid[i] = 1 THEN ChunkOp(f, acc, rows[i]) ELSE acc)
BitIdentity(f, nchunks) == [j \in 1..nchunks |-> IF f = "and" THEN 65535 ELSE 0]

(* ------------------------- three-valued (Kleene) logic ------------------- *)
(* 0 = false, 1 = true, 2 = null (unknown)                                   *)
And3(a, b) == IF a = 0 \/ b = 0 THEN 0 ELSE IF a = 1 /\ b = 1 THEN 1 ELSE 2
Or3(a, b)  == IF a = 1 \/ b = 1 THEN 1 ELSE IF a = 0 /\ b = 0 THEN 0 ELSE 2
Not3(a)    == IF a = 2 THEN 2 ELSE 1 - a
(* the non-Kleene kernels: null if either input is null                      *)
AndN(a, b)    == IF a = 2 \/ b = 2 THEN 2 ELSE a * b
OrN(a, b)     == IF a = 2 \/ b = 2 THEN 2 ELSE Max2(a, b)
AndNotN(a, b) == IF a = 2 \/ b = 2 THEN 2 ELSE a * (1 - b)

(* definition of Kleene's strong logic by completions: the result is a truth  *)
(* value iff every way of replacing the unknowns gives that value             *)
Completions(a) == IF a = 2 THEN {0, 1} ELSE {a}
ByCompletion(f(_, _), a, b) ==
  LET R == {f(x, y) : x \in Completions(a), y \in Completions(b)}
  IN IF R = {0} THEN 0 ELSE IF R = {1} THEN 1 ELSE 2
=============================================================================
