SPECIFICATION Spec
CONSTANTS
  Scripts <- TinyScripts
  Caps <- TinyCaps
  Files <- TinyFiles
  MaxK = 4
  Lossy = FALSE
  Forgetful = TRUE
INVARIANTS TypeOK I_W3 I_Writer I_Buffer I_DevLog
CHECK_DEADLOCK TRUE
