---------------------------- MODULE MC_Coalescer ----------------------------
(* Exhaustive model of the BatchCoalescer: every history of pushes (plain,  *)
(* filtered, by indices), finishes, pops and limit changes, for small       *)
(* targets and batch sizes, with at most MaxQueued batches waiting.         *)
EXTENDS Coalescer, TLC

CONSTANTS Targets, Limits, MaxN, MaxQueued

SparseShapes == {<<16, 16, {1}>>, <<16, 16, {16}>>, <<33, 32, {3, 20}>>, <<17, 16, {5}>>}

MaxOf(S) == CHOOSE x \in S : \A y \in S : y <= x
PosIds == {pending[i] : i \in DOMAIN pending} \ {0}
Base == IF PosIds = {} THEN 0 ELSE MaxOf(PosIds)
Fresh(k) == [i \in 1..k |-> Base + i]

(* the subsequence of s at the positions in P                               *)
RECURSIVE Pick(_, _, _)
Pick(s, P, i) == IF i > Len(s) THEN <<>>
                 ELSE (IF i \in P THEN <<s[i]>> ELSE <<>>) \o Pick(s, P, i + 1)

MCInit ==
  /\ target \in Targets /\ special \in BOOLEAN
  /\ limit = NoLimit /\ everLimited = FALSE
  /\ buffered = <<>> /\ completed = <<>> /\ pending = <<>>

MCPush == \E n \in 0..MaxN : Push(Fresh(n))

MCFilter ==
  \/ \E n \in 1..3 : \E flen \in 0..(n + 1) :
       \E P \in SUBSET (1..(IF flen < n THEN flen ELSE n)) :
          PushFiltered(n, flen, Pick(Fresh(n), P, 1))
  \/ \E sh \in SparseShapes :            \* <<n, flen, positions>> with few rows out of many
          PushFiltered(sh[1], sh[2], Pick(Fresh(sh[1]), sh[3], 1))

(* push_batch_with_indices: in the model the taken rows are just rows (the  *)
(* null / duplicate / reordered index vectors are exercised against the      *)
(* real code, where Trace_Coalescer computes the taken rows from the         *)
(* logged indices)                                                           *)
MCIndices == \E k \in {0, MaxN} : PushIndices(Fresh(k))

MCSetLimit == \E l \in Limits : l # limit /\ SetLimit(l)

MCNext == MCPush \/ MCFilter \/ MCIndices \/ Finish \/ NextCompleted \/ MCSetLimit

MCSpec == MCInit /\ [][MCNext]_vars

Queued == Len(completed) <= MaxQueued

(* Row ids only matter up to their relative order: a state is identified by *)
(* the rank of every id among the ids still pending (in a state satisfying  *)
(* I3 the ranks are 1..n in order; a lost, duplicated or reordered row      *)
(* yields a different view and is therefore still visited and checked)      *)
Rank(x) == IF x = 0 THEN 0 ELSE 1 + Cardinality({y \in PosIds : y < x})
Sh(s) == [i \in DOMAIN s |-> Rank(s[i])]
View == <<target, special, limit, everLimited, Sh(buffered),
          [i \in DOMAIN completed |-> [rows |-> Sh(completed[i].rows), kind |-> completed[i].kind]],
          Sh(pending)>>
=============================================================================
