SPECIFICATION MCSpec
CONSTANTS
  G = 1
  S = 1
  F = 1
  MaxRecs = 1
  MaxBytes = 7
  BatchSizes = {1, 2}
  Faithful = TRUE
  Widths = {1}
  Lens = {0, 2}
  Empties = {FALSE}
INVARIANTS I_ChunkIndependent I_BatchBound I_SoeSemantics
CHECK_DEADLOCK TRUE
