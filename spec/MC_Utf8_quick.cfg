SPECIFICATION Spec
CONSTANT MaxLen = 3
INVARIANTS TableAgreesWithDecoding ConcatLaw BoundaryLaw RangeLaw Basics
CHECK_DEADLOCK FALSE
