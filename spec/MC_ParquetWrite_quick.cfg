SPECIFICATION Spec
CONSTANTS
  Cols = {1, 2}
  MaxRG = 2
  ByteLimit = FALSE
  PageRows = 2
  BatchSz = 1
  SizeSplits = FALSE
  DictCols = {1}
  Fallback = TRUE
  MaxOps = 3
  MaxBatch = 3
INVARIANTS P1_RowsConserved P2_GroupSizes P2_Buffered P2_Documented P3_Chunks P3_OpenPages P4_Dictionary P5_Closed
PROPERTY P5_NoStepAfterClose
CHECK_DEADLOCK FALSE
