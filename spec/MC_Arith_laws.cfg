SPECIFICATION LawsSpec
CONSTANTS
  LimbDigits = 4
  N = 0
INVARIANT Laws
CHECK_DEADLOCK FALSE
