---------------------------- MODULE VariantFormat ----------------------------
(***************************************************************************)
(* The Parquet Variant binary encoding (parquet-format VariantEncoding.md, *)
(* version 1) as a validator / decoder over byte sequences (C08).          *)
(*                                                                         *)
(* A variant is a pair (metadata, value) of byte strings.                  *)
(*                                                                         *)
(*   metadata = header | dictionary_size | offsets[n+1] | bytes            *)
(*     header: bits 0-3 version (= 1), bit 4 sorted_strings, bits 6-7      *)
(*     offset_size_minus_one; dictionary_size and every offset are         *)
(*     offset_size bytes, little endian; string i is                       *)
(*     bytes[offset[i] .. offset[i+1]); the first offset is 0; every       *)
(*     string is UTF-8; with sorted_strings the strings are unique and in  *)
(*     increasing (byte-wise lexicographic) order.                         *)
(*                                                                         *)
(*   value = value_metadata byte | data;  basic_type = bits 0-1,           *)
(*     value_header = bits 2-7.                                            *)
(*     0 primitive   value_header = type id 0..20, fixed-size payload, or  *)
(*                   a 4-byte length + bytes (binary 15, string 16)        *)
(*     1 short string value_header = length 0..63, UTF-8 bytes             *)
(*     2 object      field_offset_size_minus_one (2 bits),                 *)
(*                   field_id_size_minus_one (2 bits), is_large (1 bit);   *)
(*                   num_elements (1 or 4 bytes) | field ids[n] |          *)
(*                   field offsets[n+1] | values.  Field ids index the     *)
(*                   dictionary; the fields are listed in the              *)
(*                   lexicographic order of their names and "an object     *)
(*                   may not contain duplicate keys", i.e. the names are   *)
(*                   strictly increasing; value i starts at offset[i]      *)
(*                   (any order), the last offset is the size of the       *)
(*                   value area.                                           *)
(*     3 array       field_offset_size_minus_one (2 bits), is_large (1     *)
(*                   bit); num_elements | offsets[n+1] | values; element i *)
(*                   is values[offset[i] .. offset[i+1]), first offset 0.  *)
(*   Every nested value is itself a valid value for the same metadata.     *)
(*                                                                         *)
(* Liberal where the format is silent (so that "the implementation accepts *)
(* => the specification calls it valid" cannot raise a false alarm):       *)
(* bytes after the encoded metadata / value are ignored (the encoding is   *)
(* self-delimiting), unused header bits are ignored, an unsorted           *)
(* dictionary may hold duplicate or empty strings, object values may       *)
(* overlap or leave gaps, an array element may be shorter than its slot,   *)
(* TIME / TIMESTAMP / DATE payloads are any integers.                      *)
(*                                                                         *)
(* Positions are 0-based byte offsets; `Byte(b, p)` is b[p + 1].  Integers *)
(* saturate at Huge = 2^30 (TLC has 32-bit integers; no buffer here has    *)
(* 2^30 bytes, so any quantity >= Huge is out of bounds).                  *)
(***************************************************************************)
EXTENDS Naturals, Integers, Sequences, Utf8, TLC

Huge == 1073741824

Byte(b, p) == b[p + 1]
Has(b, p, w, e) == p >= 0 /\ w >= 0 /\ p + w <= e /\ e <= Len(b)

(* unsigned little-endian integer of w (1..4) bytes at p, saturated          *)
LE(b, p, w) ==
  Byte(b, p)
  + (IF w >= 2 THEN 256 * Byte(b, p + 1) ELSE 0)
  + (IF w >= 3 THEN 65536 * Byte(b, p + 2) ELSE 0)
  + (IF w >= 4 THEN (IF Byte(b, p + 3) >= 64 THEN Huge ELSE 16777216 * Byte(b, p + 3)) ELSE 0)

(* signed little-endian integers (exact: w <= 4 fits TLC's integers)         *)
Signed(b, p, w) ==
  LET top == Byte(b, p + w - 1)
      hi  == IF top >= 128 THEN top - 256 ELSE top
      low == IF w = 1 THEN 0
             ELSE Byte(b, p) + (IF w >= 3 THEN 256 * Byte(b, p + 1) ELSE 0) + (IF w >= 4 THEN 65536 * Byte(b, p + 2) ELSE 0)
      mul == IF w = 1 THEN 1 ELSE IF w = 2 THEN 256 ELSE IF w = 3 THEN 65536 ELSE 16777216
  IN hi * mul + low

(* byte-wise lexicographic order on byte strings                             *)
RECURSIVE StrLessFrom(_, _, _)
StrLessFrom(a, b, i) ==
  IF i > Len(a) THEN i <= Len(b)
  ELSE IF i > Len(b) THEN FALSE
  ELSE IF a[i] < b[i] THEN TRUE
  ELSE IF a[i] > b[i] THEN FALSE
  ELSE StrLessFrom(a, b, i + 1)
StrLess(a, b) == StrLessFrom(a, b, 1)

(***************************************************************************)
(* Metadata                                                                *)
(***************************************************************************)
MOsz(m) == (m[1] \div 64) + 1
MSorted(m) == (m[1] \div 16) % 2 = 1
MN(m) == LE(m, 1, MOsz(m))                               \* dictionary size
MStart(m) == 1 + MOsz(m) + (MN(m) + 1) * MOsz(m)         \* first string byte
MOff(m, i) == LE(m, 1 + MOsz(m) + i * MOsz(m), MOsz(m))
MStr(m, i) == SubSeq(m, MStart(m) + MOff(m, i) + 1, MStart(m) + MOff(m, i + 1))

(* `rx` is a set of relaxations used only to identify known findings narrowly: *)
(*   "utf8-whole"  the string area as a whole is UTF-8, the individual strings  *)
(*                 need not be (an offset may split a multi-byte character)     *)
(*   "dup-keys"    the field names of an object need only be non-decreasing     *)
MetaValidR(m, rx) ==
  /\ Len(m) >= 1
  /\ m[1] % 16 = 1                                        \* version 1
  /\ Len(m) >= 1 + MOsz(m)
  /\ MN(m) <= Len(m)                                      \* (n+1) offsets cannot fit otherwise; also keeps arithmetic small
  /\ MStart(m) <= Len(m)
  /\ MOff(m, 0) = 0
  /\ \A i \in 0..(MN(m) - 1) : MOff(m, i) <= MOff(m, i + 1)
  /\ MOff(m, MN(m)) < Huge /\ MStart(m) + MOff(m, MN(m)) <= Len(m)
  /\ IF "utf8-whole" \in rx THEN ValidRange(m, MStart(m), MStart(m) + MOff(m, MN(m)))
     ELSE \A i \in 0..(MN(m) - 1) : ValidRange(m, MStart(m) + MOff(m, i), MStart(m) + MOff(m, i + 1))
  /\ MSorted(m) => \A i \in 0..(MN(m) - 2) : StrLess(MStr(m, i), MStr(m, i + 1))
MetaValid(m) == MetaValidR(m, {})

(* the dictionary of a valid metadata                                        *)
Names(m) == [i \in 1..MN(m) |-> MStr(m, i - 1)]
(* number of bytes the encoded metadata occupies                             *)
MetaSize(m) == MStart(m) + MOff(m, MN(m))

(***************************************************************************)
(* Values.  VSize(m, v, p, e): the size of the valid value encoded at p    *)
(* within v[p, e), or -1 when there is none.                               *)
(***************************************************************************)
PrimFixed(t) ==         \* payload bytes of the fixed-size primitives, -1 otherwise
  CASE t \in {0, 1, 2} -> 0
    [] t = 3 -> 1
    [] t = 4 -> 2
    [] t \in {5, 11, 14} -> 4
    [] t \in {6, 7, 12, 13, 17, 18, 19} -> 8
    [] t = 8 -> 5
    [] t = 9 -> 9
    [] t = 10 -> 17
    [] t = 20 -> 16
    [] OTHER -> -1

(* decimals: scale 0..38, |unscaled| < 10^precision (9, 18, 38 digits).      *)
(* The unscaled value is a two's complement little-endian integer of w       *)
(* bytes; its magnitude is compared byte-wise with 10^p - 1.                 *)
MaxMag(w) ==            \* 10^9-1, 10^18-1, 10^38-1 as little-endian bytes
  IF w = 4 THEN <<255, 201, 154, 59>>
  ELSE IF w = 8 THEN <<255, 255, 99, 167, 179, 182, 224, 13>>
  ELSE <<255, 255, 255, 255, 63, 34, 138, 9, 122, 196, 134, 90, 168, 76, 59, 75>>

RECURSIVE NegFrom(_, _, _)
NegFrom(x, i, carry) ==      \* two's complement negation of a little-endian byte string
  IF i > Len(x) THEN <<>>
  ELSE LET s == (255 - x[i]) + carry IN <<s % 256>> \o NegFrom(x, i + 1, s \div 256)
Magnitude(x) == IF x[Len(x)] >= 128 THEN NegFrom(x, 1, 1) ELSE x

RECURSIVE LeqLEFrom(_, _, _)
LeqLEFrom(a, b, i) ==        \* a <= b as unsigned little-endian numbers of equal length, compared from the top byte i
  IF i = 0 THEN TRUE
  ELSE IF a[i] < b[i] THEN TRUE
  ELSE IF a[i] > b[i] THEN FALSE
  ELSE LeqLEFrom(a, b, i - 1)

DecimalOK(v, p, w) ==
  LET x == SubSeq(v, p + 2, p + 1 + w)
      mag == Magnitude(x)
  IN /\ Byte(v, p) <= 38
     /\ mag[w] < 128                          \* -2^(8w-1) has no magnitude in w bytes and exceeds every bound
     /\ LeqLEFrom(mag, MaxMag(w), w)

PrimSize(v, p, e, t) ==      \* p: position of the value_metadata byte
  IF t \in {15, 16} THEN
    IF ~Has(v, p + 1, 4, e) THEN -1
    ELSE LET n == LE(v, p + 1, 4) IN
         IF n >= Huge \/ ~Has(v, p + 5, n, e) THEN -1
         ELSE IF t = 16 /\ ~ValidRange(v, p + 5, p + 5 + n) THEN -1
         ELSE 5 + n
  ELSE LET w == PrimFixed(t) IN
       IF w = -1 \/ ~Has(v, p + 1, w, e) THEN -1
       ELSE IF t = 8 /\ ~DecimalOK(v, p + 1, 4) THEN -1
       ELSE IF t = 9 /\ ~DecimalOK(v, p + 1, 8) THEN -1
       ELSE IF t = 10 /\ ~DecimalOK(v, p + 1, 16) THEN -1
       ELSE 1 + w

RECURSIVE VSizeR(_, _, _, _, _)

(* container header fields                                                   *)
COsz(vh) == (vh % 4) + 1
ArrLarge(vh) == (vh \div 4) % 2 = 1
ObjIsz(vh) == ((vh \div 4) % 4) + 1
ObjLarge(vh) == (vh \div 16) % 2 = 1

ArrSize(m, v, p, e, vh, rx) ==
  LET osz == COsz(vh)
      nsz == IF ArrLarge(vh) THEN 4 ELSE 1
  IN IF ~Has(v, p + 1, nsz, e) THEN -1
     ELSE LET n == LE(v, p + 1, nsz)
              o0 == p + 1 + nsz IN
          IF n > e THEN -1                                  \* n+1 offsets cannot fit
          ELSE LET vs == o0 + (n + 1) * osz
                   Off(i) == LE(v, o0 + i * osz, osz) IN
               IF vs > e THEN -1
               ELSE IF Off(0) # 0 THEN -1
               ELSE IF \E i \in 0..(n - 1) : Off(i) > Off(i + 1) THEN -1
               ELSE IF Off(n) >= Huge \/ vs + Off(n) > e THEN -1
               ELSE IF \E i \in 0..(n - 1) : VSizeR(m, v, vs + Off(i), vs + Off(i + 1), rx) = -1 THEN -1
               ELSE vs + Off(n) - p

ObjSize(m, v, p, e, vh, rx) ==
  LET osz == COsz(vh)
      isz == ObjIsz(vh)
      nsz == IF ObjLarge(vh) THEN 4 ELSE 1
  IN IF ~Has(v, p + 1, nsz, e) THEN -1
     ELSE LET n == LE(v, p + 1, nsz)
              i0 == p + 1 + nsz IN
          IF n > e THEN -1
          ELSE LET o0 == i0 + n * isz
                   vs == o0 + (n + 1) * osz
                   Id(i) == LE(v, i0 + i * isz, isz)
                   Off(i) == LE(v, o0 + i * osz, osz) IN
               IF vs > e THEN -1
               ELSE IF \E i \in 0..(n - 1) : Id(i) >= MN(m) THEN -1
               ELSE IF \E i \in 0..(n - 2) : ~(StrLess(MStr(m, Id(i)), MStr(m, Id(i + 1)))
                                                  \/ ("dup-keys" \in rx /\ MStr(m, Id(i)) = MStr(m, Id(i + 1)))) THEN -1
               ELSE IF Off(n) >= Huge \/ vs + Off(n) > e THEN -1
               ELSE IF \E i \in 0..(n - 1) : Off(i) >= Off(n) \/ VSizeR(m, v, vs + Off(i), vs + Off(n), rx) = -1 THEN -1
               ELSE vs + Off(n) - p

VSizeR(m, v, p, e, rx) ==
  IF p >= e THEN -1
  ELSE LET h == Byte(v, p)
           bt == h % 4
           vh == h \div 4
       IN CASE bt = 0 -> PrimSize(v, p, e, vh)
            [] bt = 1 -> IF Has(v, p + 1, vh, e) /\ ValidRange(v, p + 1, p + 1 + vh) THEN 1 + vh ELSE -1
            [] bt = 2 -> ObjSize(m, v, p, e, vh, rx)
            [] OTHER  -> ArrSize(m, v, p, e, vh, rx)
VSize(m, v, p, e) == VSizeR(m, v, p, e, {})

ValueValid(m, v) == VSize(m, v, 0, Len(v)) # -1
VariantValidR(m, v, rx) == MetaValidR(m, rx) /\ VSizeR(m, v, 0, Len(v), rx) # -1
VariantValid(m, v) == MetaValid(m) /\ ValueValid(m, v)
(* valid and without trailing bytes                                          *)
Tight(m, v) == MetaValid(m) /\ VSize(m, v, 0, Len(v)) = Len(v)

(***************************************************************************)
(* Decoder: the value denoted by a valid encoding, as a canonical token    *)
(* (the harness builds the same token from the public accessors of the     *)
(* real Variant).  Bytes are written as decimal numbers joined by ".".     *)
(***************************************************************************)
RECURSIVE BytesTok(_, _)
BytesTok(s, i) == IF i > Len(s) THEN ""
                  ELSE ToString(s[i]) \o (IF i < Len(s) THEN "." ELSE "") \o BytesTok(s, i + 1)
BT(v, p, n) == BytesTok(SubSeq(v, p + 1, p + n), 1)

PrimName(t) ==
  CASE t = 6 -> "i64" [] t = 7 -> "f64" [] t = 9 -> "d8" [] t = 10 -> "d16" [] t = 12 -> "tsu" [] t = 13 -> "tsnu"
    [] t = 14 -> "f32" [] t = 17 -> "time" [] t = 18 -> "tsn" [] t = 19 -> "tsnn" [] t = 20 -> "uuid" [] OTHER -> "?"

RECURSIVE Token(_, _, _, _)
RECURSIVE JoinElems(_, _, _, _, _, _, _)
RECURSIVE JoinFields(_, _, _, _, _, _, _, _, _)

(* elements i..n-1 of an array whose offsets start at o0 and values at vs    *)
JoinElems(m, v, o0, osz, vs, i, n) ==
  IF i >= n THEN ""
  ELSE Token(m, v, vs + LE(v, o0 + i * osz, osz), vs + LE(v, o0 + (i + 1) * osz, osz))
       \o (IF i + 1 < n THEN "," ELSE "") \o JoinElems(m, v, o0, osz, vs, i + 1, n)

JoinFields(m, v, i0, isz, o0, osz, vs, i, n) ==
  IF i >= n THEN ""
  ELSE BytesTok(MStr(m, LE(v, i0 + i * isz, isz)), 1) \o "="
       \o Token(m, v, vs + LE(v, o0 + i * osz, osz), vs + LE(v, o0 + n * osz, osz))
       \o (IF i + 1 < n THEN "," ELSE "") \o JoinFields(m, v, i0, isz, o0, osz, vs, i + 1, n)

Token(m, v, p, e) ==
  LET h == Byte(v, p)
      bt == h % 4
      vh == h \div 4
  IN CASE bt = 0 ->
            (CASE vh = 0 -> "null" [] vh = 1 -> "true" [] vh = 2 -> "false"
               [] vh = 3 -> "i8:" \o ToString(Signed(v, p + 1, 1))
               [] vh = 4 -> "i16:" \o ToString(Signed(v, p + 1, 2))
               [] vh = 5 -> "i32:" \o ToString(Signed(v, p + 1, 4))
               [] vh = 11 -> "date:" \o ToString(Signed(v, p + 1, 4))
               [] vh = 8 -> "d4:" \o ToString(Byte(v, p + 1)) \o "/" \o ToString(Signed(v, p + 2, 4))
               [] vh = 15 -> "bin:" \o BT(v, p + 5, LE(v, p + 1, 4))
               [] vh = 16 -> "s:" \o BT(v, p + 5, LE(v, p + 1, 4))
               [] OTHER -> PrimName(vh) \o ":" \o BT(v, p + 1, PrimFixed(vh)))
       [] bt = 1 -> "ss:" \o BT(v, p + 1, vh)
       [] bt = 3 ->
            LET osz == COsz(vh)
                nsz == IF ArrLarge(vh) THEN 4 ELSE 1
                n == LE(v, p + 1, nsz)
                o0 == p + 1 + nsz
            IN "[" \o JoinElems(m, v, o0, osz, o0 + (n + 1) * osz, 0, n) \o "]"
       [] OTHER ->
            LET osz == COsz(vh)
                isz == ObjIsz(vh)
                nsz == IF ObjLarge(vh) THEN 4 ELSE 1
                n == LE(v, p + 1, nsz)
                i0 == p + 1 + nsz
                o0 == i0 + n * isz
            IN "{" \o JoinFields(m, v, i0, isz, o0, osz, o0 + (n + 1) * osz, 0, n) \o "}"

Decode(m, v) == Token(m, v, 0, Len(v))          \* needs VariantValid(m, v)
=============================================================================
