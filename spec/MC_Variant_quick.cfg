SPECIFICATION Spec
CONSTANTS
  ValueUniverses <- VU_quick
  MetaUniverses <- MU_quick
  Metas <- MetasQuick
INVARIANTS Total SelfDelimiting ExtensionStable NestedValid MetaLaws Emit
CHECK_DEADLOCK FALSE
