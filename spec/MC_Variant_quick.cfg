SPECIFICATION Spec
CONSTANTS
  ValueUniverses <- VU_quick
  MetaUniverses <- MU_quick
  Metas <- MetasStd
INVARIANTS Total SelfDelimiting ExtensionStable NestedValid MetaLaws
CHECK_DEADLOCK FALSE
