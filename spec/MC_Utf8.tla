------------------------------- MODULE MC_Utf8 -------------------------------
(* Bounded check of Utf8.tla: every byte string over `Alphabet` (all class   *)
(* boundaries of table 3-7) up to length MaxLen is built byte by byte; the   *)
(* table-driven validity must agree with validity by decoding, and the       *)
(* concatenation / boundary / range laws the layout rules rely on must hold. *)
EXTENDS Utf8, TLC

CONSTANT MaxLen

Alphabet == {0, 65, 127, 128, 143, 144, 159, 160, 191, 192, 193, 194, 223, 224, 225,
             236, 237, 238, 239, 240, 241, 243, 244, 245, 247, 248, 255}

VARIABLE s

Init == s = <<>>
Grow == /\ Len(s) < MaxLen
        /\ \E x \in Alphabet : s' = Append(s, x)
Next == Grow
Spec == Init /\ [][Next]_s

Pre(k) == SubSeq(s, 1, k)
Suf(k) == SubSeq(s, k + 1, Len(s))

TableAgreesWithDecoding == Valid(s) <=> DecodeValid(s)

(* valid \o valid is valid; a valid string cut after a valid prefix leaves a valid suffix *)
ConcatLaw == \A k \in 0..Len(s) :
               /\ (Valid(Pre(k)) /\ Valid(Suf(k))) => Valid(s)
               /\ (Valid(s) /\ Valid(Pre(k))) => Valid(Suf(k))

(* in a valid string the character boundaries are exactly the cut points with valid halves *)
BoundaryLaw == Valid(s) => \A k \in 0..Len(s) : IsCharBoundary(s, k) <=> (Valid(Pre(k)) /\ Valid(Suf(k)))

(* ValidRange looks only at the addressed bytes *)
RangeLaw == \A lo \in 0..Len(s) : \A hi \in lo..Len(s) : ValidRange(s, lo, hi) <=> Valid(SubSeq(s, lo + 1, hi))

(* ASCII is valid, a lone continuation / C0 / C1 / F5.. byte is not *)
Basics == /\ (\A i \in 1..Len(s) : s[i] <= 127) => Valid(s)
          /\ (Len(s) = 1 /\ s[1] >= 128) => ~Valid(s)
=============================================================================
