---------------------------- MODULE Trace_BitOps ----------------------------
(***************************************************************************)
(* impl -> spec (C19): every recorded call of a bit-mask primitive of      *)
(* arrow-buffer must return what BitOps.tla defines on the *logical* input *)
(* bits (the driver extracts them at the addressed range), for every       *)
(* offset / length / content / base-pointer alignment the driver walks.    *)
(*                                                                         *)
(* Event kinds (field `op`):                                               *)
(*   un    one range: counting, tests, iterators, set indices / runs,      *)
(*         chunk iterators, not / unary word ops, from_bits / slice /      *)
(*         sliced / bit_slice, find-nth, equality, and the in-place        *)
(*         apply_bitwise_unary_op with the destination before / after      *)
(*   bin   two ranges: & | ^ and-not, binary word ops (allocating and      *)
(*         in-place with destination before / after), &= |= ^= on a        *)
(*         uniquely owned and on a shared BooleanBuffer                    *)
(*   set   bit_mask::set_bits with the destination before / after          *)
(*   quat  bitwise_quaternary_op_helper                                    *)
(*   null  NullBuffer union / union_many / contains / expand               *)
(*   ctor  construction from bits / closures / iterators                   *)
(*   bigs, bigv   the large-size stage (512 .. 4096+ bits) of every          *)
(*         primitive with a word / block fast path                         *)
(*   bnew, bcall   BooleanBufferBuilder / NullBufferBuilder as a state      *)
(*         machine (variable `bits`)                                       *)
(*                                                                         *)
(* "Bits outside the addressed range are not modified": Outside(d1, d0,..) *)
(* on the logged full destination.  "... are not read as data": every      *)
(* read-only case is executed twice (run = 1, 2) on the same logical bits  *)
(* with complemented surrounding bits and another base-pointer alignment;  *)
(* both runs must satisfy the specification and View(run 1) = View(run 2). *)
(***************************************************************************)
EXTENDS BitOps, TraceBase

VARIABLES l,        \* index of the next event
          prev,     \* the event of run 1 (for the run 2 comparison)
          bits      \* abstract builder state

J(ok, what) == Judge(ok, l, what)

(* packed results (Buffer) are logged as their first n bits, or fewer if the *)
(* buffer is too short -- the length comparison then fails                   *)
---------------------------------------------------------------------------
UnOK(ev) ==
  LET a == ev.a n == Len(ev.a) IN
  /\ J(n = ev.n /\ IsBits(a), "un: input")
  /\ J(ev.count = Count(a) /\ ev.cnt2 = Count(a) /\ ev.ucnt = Count(a), "count_set_bits")
  /\ J(ev.nulls = CountZeros(a), "NullBuffer::new null_count")
  /\ J(ev.ht = HasTrue(a), "has_true")
  /\ J(ev.hf = HasFalse(a), "has_false")
  /\ J(ev.iter = a, "BitIterator")
  /\ J(ev.rev = Reverse(a), "BitIterator rev")
  /\ J(/\ ev.it[2] = IterNth(a, ev.it[1]) /\ ev.it[3] = IterNthRest(a, ev.it[1])
       /\ ev.it[5] = IterNthBack(a, ev.it[4]) /\ ev.it[6] = IterNthRest(a, ev.it[4])
       /\ ev.it[7] = IterLast(a) /\ ev.it[8] = IterMax(a) /\ ev.it[9] = n, "BitIterator nth/nth_back/last/max/count")
  /\ J(ev.idx = SetIndices(a), "set_indices")
  /\ J(ev.idx32 = SetIndices(a), "set_indices_u32")
  /\ J(ev.runs = SetSlices(a), "set_slices")
  /\ J(/\ ev.cl = ChunkLen(a) /\ ev.rl = RemainderLen(a) /\ ev.chunks = ChunkBits(a)
       /\ ev.rem = RemainderWord(a) /\ ev.padded = ChunkLen(a) + 1, "BitChunks")
  /\ J(UnalignedOK(a, ev.ulead, ev.utrail, ev.uw), "UnalignedBitChunk")
  /\ J(ev.not = Not(a), "not")
  /\ J(ev.bnot = Not(a), "buffer_unary_not")
  /\ J(ev.hnot = Not(a), "bitwise_unary_op_helper not")
  /\ J(ev.un = Un(ev.f1, a), "from_bitwise_unary_op")
  /\ J(ev.hun = Un(ev.f1, a), "bitwise_unary_op_helper")
  /\ J(ev.fb = a, "from_bits")
  /\ J(ev.sliced = a, "sliced")
  /\ J(ev.bsl = a, "bit_slice")
  /\ J(ev.sl = Slice(a, ev.so, ev.sn) /\ ev.slcount = Count(Slice(a, ev.so, ev.sn)), "slice")
  /\ J(\A q \in 1..Len(ev.fq) : ev.fq[q][3] = FindNth(a, ev.fq[q][1], ev.fq[q][2]), "find_nth_set_bit_position")
  /\ J(ev.eq1 = Eq(a, a), "eq same")
  /\ J(ev.fi >= 0 => ev.eq2 = Eq(a, FlipAt(a, ev.fi)), "eq flipped")
  /\ J(ev.fi < 0 => ev.eq2 = Eq(a, Append(a, 0)), "eq longer")
  /\ J(Sub(ev.d0, ev.off, n) = a, "un: destination holds the input")
  /\ J(ev.d1 = ApplyUn(ev.d0, ev.off, n, ev.f1), "apply_bitwise_unary_op result")
  /\ J(Outside(ev.d1, ev.d0, ev.off, n), "apply_bitwise_unary_op frame")

UnView(ev) == <<ev.a, ev.f1, ev.bnot, ev.count, ev.cnt2, ev.ucnt, ev.nulls, ev.ht, ev.hf, ev.iter, ev.rev, ev.it, ev.idx,
                ev.idx32, ev.runs, ev.cl, ev.rl, ev.chunks, ev.rem, ev.not, ev.hnot, ev.un, ev.hun, ev.fb,
                ev.sliced, ev.bsl, ev.so, ev.sn, ev.sl, ev.fq, ev.eq1, ev.eq2,
                Sub(ev.d1, ev.off, ev.n)>>

---------------------------------------------------------------------------
(* Large-size stage: lengths around and beyond the word / 16-word block fast  *)
(* paths.  `bigs`: the scalar primitives on one long range.  `bigv`: the      *)
(* primitives with long results, logged run-length encoded (`_r`); index      *)
(* sequences are logged as their maximal stretches of consecutive indices     *)
(* (lossless), which for the right answer are the runs of set bits.           *)
BigSOK(ev) ==
  LET a == ev.a n == Len(ev.a) IN
  /\ J(n = ev.n, "bigs: input")
  /\ J(ev.count = Count(a) /\ ev.cnt2 = Count(a) /\ ev.ucnt = Count(a), "big count_set_bits")
  /\ J(ev.nulls = CountZeros(a), "big null_count")
  /\ J(ev.ht = HasTrue(a), "big has_true")
  /\ J(ev.hf = HasFalse(a), "big has_false")
  /\ J(ev.itmax = IterMax(a), "big BitIterator max")
  /\ J(\A q \in 1..Len(ev.fq) : ev.fq[q][3] = FindNth(a, ev.fq[q][1], ev.fq[q][2]), "big find_nth")
  /\ J(ev.eq1 = Eq(a, a), "big eq same")
  /\ J(ev.eq2 = Eq(a, FlipAt(a, ev.fi)), "big eq flipped")
  /\ J(ev.cont1 = Contains(a, a) /\ ev.cont2 = Contains(a, FlipAt(a, ev.fi)), "big contains")
BigSView(ev) == <<ev.a, ev.count, ev.cnt2, ev.ucnt, ev.nulls, ev.ht, ev.hf, ev.itmax, ev.fq, ev.eq1, ev.eq2, ev.cont1, ev.cont2>>

RunLens(r) == LET F[k \in 0..Len(r)] == IF k = 0 THEN 0 ELSE F[k - 1] + r[k][2] IN F[Len(r)]

BigVOK(ev) ==
  LET a == ev.a b == ev.b n == Len(ev.a) IN
  /\ J(n = ev.n /\ Len(b) = n, "bigv: input")
  /\ J(ev.idx = SetSlices(a) /\ ev.idx32 = SetSlices(a), "big set_indices")
  /\ J(ev.runs = SetSlices(a), "big set_slices")
  /\ J(/\ ev.cl = ChunkLen(a) /\ ev.rl = RemainderLen(a) /\ ev.chunks_r = RLE(ChunkBits(a))
       /\ ev.rem = RemainderWord(a), "big BitChunks")
  /\ J(/\ ev.ulead \in 0..63 /\ ev.utrail \in 0..63 /\ RunLens(ev.uw_r) % 64 = 0
       /\ ev.uw_r = RLE(Zeros(ev.ulead) \o a \o Zeros(ev.utrail)), "big UnalignedBitChunk")
  /\ J(ev.iter_r = RLE(a), "big BitIterator")
  /\ J(ev.not_r = RLE(Not(a)) /\ ev.hnot_r = RLE(Not(a)) /\ ev.bnot_r = RLE(Not(a)), "big not")
  /\ J(ev.un_r = RLE(Un(ev.f1, a)) /\ ev.hun_r = RLE(Un(ev.f1, a)), "big unary op")
  /\ J(ev.sliced_r = RLE(a) /\ ev.bsl_r = RLE(a), "big sliced / bit_slice")
  /\ J(ev.and_r = RLE(And(a, b)) /\ ev.or_r = RLE(Or(a, b)) /\ ev.xor_r = RLE(Xor(a, b)), "big and/or/xor")
  /\ J(ev.tt_r = RLE(Bin(ev.f2, a, b)) /\ ev.htt_r = RLE(Bin(ev.f2, a, b)), "big binary op")
  /\ J(Sub(ev.d0, ev.off, n) = a, "bigv: destination holds the input")
  /\ J(ev.ud1_r = RLE(ApplyUn(ev.d0, ev.off, n, ev.f1)), "big apply_bitwise_unary_op")
  /\ J(ev.bd1_r = RLE(ApplyBin(ev.d0, ev.off, b, n, ev.f2)), "big apply_bitwise_binary_op")
  /\ J(ev.sd1_r = RLE(SetBits(ev.sd0, b, ev.off, 0, n)) /\ ev.sret = CountZeros(b), "big set_bits")
  /\ J(OptAgrees(ev.u_p, UnRLE(ev.u_r), Union(a, b)), "big NullBuffer::union")
  /\ J(ev.ex_r = RLE(Expand(a, 2)), "big NullBuffer::expand")
BigVView(ev) == <<ev.a, ev.b, ev.f1, ev.f2, ev.idx, ev.idx32, ev.runs, ev.cl, ev.rl, ev.chunks_r, ev.rem, ev.iter_r,
                  ev.not_r, ev.hnot_r, ev.bnot_r, ev.un_r, ev.hun_r, ev.sliced_r, ev.bsl_r, ev.and_r, ev.or_r, ev.xor_r, ev.tt_r,
                  ev.htt_r, ev.sret, ev.u_p, ev.u_r, ev.ex_r>>

---------------------------------------------------------------------------
AsgTable(ev) == CASE ev.aop = "and" -> TAnd [] ev.aop = "or" -> TOr [] ev.aop = "xor" -> TXor

BinOK(ev) ==
  LET a == ev.a b == ev.b n == Len(ev.a) IN
  /\ J(n = ev.n /\ Len(b) = n /\ IsBits(a) /\ IsBits(b), "bin: input")
  /\ J(ev.and = And(a, b), "and")
  /\ J(ev.or = Or(a, b), "or")
  /\ J(ev.xor = Xor(a, b), "xor")
  /\ J(ev.andnot = AndNot(a, b), "and_not")
  /\ J(ev.tt = Bin(ev.f2, a, b), "from_bitwise_binary_op")
  /\ J(ev.htt = Bin(ev.f2, a, b), "bitwise_bin_op_helper")
  /\ J(Sub(ev.d0, ev.lo, n) = a, "bin: destination holds the left input")
  /\ J(ev.d1 = ApplyBin(ev.d0, ev.lo, b, n, ev.f2), "apply_bitwise_binary_op result")
  /\ J(Outside(ev.d1, ev.d0, ev.lo, n), "apply_bitwise_binary_op frame")
  /\ J(ev.asu = Bin(AsgTable(ev), a, b), "op-assign (unique)")
  (* inpl: the result still lives in the operand's own buffer (the in-place path was taken) *)
  /\ J(ev.inpl => Sub(ev.au0, ev.lo, n) = a /\ Sub(ev.au1, ev.lo, n) = ev.asu, "op-assign (unique): buffers")
  /\ J(ev.inpl => Outside(ev.au1, ev.au0, ev.lo, n), "op-assign (unique) frame")
  /\ J(ev.ass = Bin(AsgTable(ev), a, b), "op-assign (shared)")
  /\ J(ev.aso = a, "op-assign (shared): the other handle changed")

BinView(ev) == <<ev.a, ev.b, ev.f2, ev.and, ev.or, ev.xor, ev.andnot, ev.tt, ev.htt, ev.aop, ev.asu, ev.ass, ev.aso,
                 Sub(ev.d1, ev.lo, ev.n)>>

---------------------------------------------------------------------------
(* set_bits.  The documentation says the destination range is set equal to  *)
(* the source range.  Known finding: the implementation ORs the source into *)
(* most destination bytes, so a destination range that is not zero before   *)
(* the call keeps some of its set bits.  The finding is identified by: the   *)
(* destination range was not all zero; frame and return value are right;    *)
(* every result bit is the source bit or (source OR old destination) bit.   *)
SetWant(ev) == SetBits(ev.d0, ev.src, ev.do, 0, Len(ev.src))
SetOrLike(ev) ==
  LET n == Len(ev.src) IN
  /\ Len(ev.d1) = Len(ev.d0)
  /\ \A i \in 1..n : \/ ev.d1[ev.do + i] = ev.src[i]
                      \/ (ev.d1[ev.do + i] = 1 /\ ev.d0[ev.do + i] = 1)
KF_Set(ev) ==
  IF /\ HasTrue(Sub(ev.d0, ev.do, Len(ev.src)))
     /\ Outside(ev.d1, ev.d0, ev.do, Len(ev.src))
     /\ ev.ret = CountZeros(ev.src)
     /\ SetOrLike(ev)
  THEN "C19-set-bits-or-into-nonzero-destination" ELSE ""

SetOK(ev) ==
  /\ J(Len(ev.src) = ev.n /\ IsBits(ev.src) /\ ev.do + ev.n <= Len(ev.d0), "set: input")
  /\ JudgeKF(ev.d1 = SetWant(ev), l, "set_bits", KF_Set(ev))
  /\ J(Outside(ev.d1, ev.d0, ev.do, ev.n), "set_bits frame")
  /\ J(ev.ret = CountZeros(ev.src), "set_bits returned zero count")

SetView(ev) == <<ev.src, ev.do, ev.d0, ev.d1, ev.ret>>

---------------------------------------------------------------------------
QuatOK(ev) ==
  /\ J(Len(ev.a) = ev.n /\ Len(ev.b) = ev.n /\ Len(ev.c) = ev.n /\ Len(ev.d) = ev.n, "quat: input")
  /\ J(ev.out = Quat(ev.f4, ev.a, ev.b, ev.c, ev.d), "bitwise_quaternary_op_helper")
QuatView(ev) == <<ev.a, ev.b, ev.c, ev.d, ev.f4, ev.out>>

---------------------------------------------------------------------------
NullOK(ev) ==
  LET n == Len(ev.a)
      oa == Opt(ev.pa, ev.a, n) ob == Opt(ev.pb, ev.b, n) oc == Opt(ev.pc, ev.c, n) IN
  /\ J(n = ev.n /\ Len(ev.b) = n /\ Len(ev.c) = n, "null: input")
  /\ J(OptAgrees(ev.u_p, ev.u, Union(oa, ob)), "NullBuffer::union")
  /\ J(ev.u_p => ev.u_nc = CountZeros(ev.u), "union null_count")
  /\ J(OptAgrees(ev.m_p, ev.m, UnionMany(<<oa, ob, oc>>, n)), "NullBuffer::union_many")
  /\ J(ev.m_p => ev.m_nc = CountZeros(ev.m), "union_many null_count")
  /\ J(ev.cont = Contains(ev.a, ev.b), "NullBuffer::contains")
  /\ J(ev.ex = Expand(ev.a, ev.k) /\ ev.ex_nc = CountZeros(Expand(ev.a, ev.k)), "NullBuffer::expand")
  /\ J(ev.nc = CountZeros(ev.a), "null_count")
  /\ J(ev.eqn = Eq(ev.a, ev.a), "NullBuffer eq")
  /\ J(ev.vidx = SetIndices(ev.a) /\ ev.vruns = SetSlices(ev.a), "valid_indices / valid_slices")

NullView(ev) == <<ev.a, ev.b, ev.c, ev.pa, ev.pb, ev.pc, ev.u_p, ev.u, ev.u_nc, ev.m_p, ev.m, ev.m_nc, ev.cont,
                  ev.k, ev.ex, ev.ex_nc, ev.nc, ev.eqn, ev.vidx, ev.vruns>>

---------------------------------------------------------------------------
CtorOK(ev) ==
  LET n == Len(ev.a) IN
  /\ J(n = ev.n, "ctor: input")
  /\ J(\A k \in 1..Len(ev.outs) : ev.outs[k] = ev.a, "constructor")
  /\ J(ev.set = Ones(n) /\ ev.nv = Ones(n), "new_set / new_valid")
  /\ J(ev.unset = Zeros(n) /\ ev.nn = Zeros(n), "new_unset / new_null")
  /\ J(ev.nv_nc = 0 /\ ev.nn_nc = n, "new_valid / new_null null_count")

---------------------------------------------------------------------------
(* builders                                                                 *)
BCallOK(ev) ==
  LET new == BuilderEff(bits, ev.call, ev.k, ev.v, ev.s) IN
  IF ev.call = "finish"
  THEN /\ J(OptAgrees(ev.p, ev.bits, bits), "builder finish: content")
       /\ J(ev.len = 0, "builder finish: reset")
  ELSE /\ J(ev.len = Len(new), <<"builder len", ev.call>>)
       /\ J(OptAgrees(ev.p, ev.bits, new), <<"builder content", ev.call>>)

---------------------------------------------------------------------------
TwoRuns(ev, view(_)) ==
  IF ev.run = 1 THEN prev' = ev
  ELSE /\ J(prev.op = ev.op /\ view(prev) = view(ev), <<"runs differ", ev.op>>)
       /\ prev' = prev

Init == l = 1 /\ prev = [op |-> "none"] /\ bits = <<>>

Next ==
  /\ l <= Len(Rec)
  /\ l' = l + 1
  /\ LET ev == Rec[l] IN
     CASE ev.op = "un"   -> /\ UnOK(ev)
                            /\ TwoRuns(ev, UnView) /\ UNCHANGED bits
       [] ev.op = "bigs" -> BigSOK(ev) /\ TwoRuns(ev, BigSView) /\ UNCHANGED bits
       [] ev.op = "bigv" -> BigVOK(ev) /\ TwoRuns(ev, BigVView) /\ UNCHANGED bits
       [] ev.op = "bin"  -> BinOK(ev) /\ TwoRuns(ev, BinView) /\ UNCHANGED bits
       [] ev.op = "set"  -> SetOK(ev) /\ TwoRuns(ev, SetView) /\ UNCHANGED bits
       [] ev.op = "quat" -> QuatOK(ev) /\ TwoRuns(ev, QuatView) /\ UNCHANGED bits
       [] ev.op = "null" -> NullOK(ev) /\ TwoRuns(ev, NullView) /\ UNCHANGED bits
       [] ev.op = "ctor" -> CtorOK(ev) /\ UNCHANGED <<prev, bits>>
       [] ev.op = "bnew" -> /\ J(ev.len = Len(ev.init) /\ OptAgrees(ev.p, ev.bits, ev.init), "builder new")
                            /\ bits' = ev.init /\ UNCHANGED prev
       [] ev.op = "bcall" -> /\ BCallOK(ev)
                             /\ bits' = BuilderEff(bits, ev.call, ev.k, ev.v, ev.s)
                             /\ UNCHANGED prev
       [] OTHER -> J(FALSE, <<"unknown event kind", ev.op>>) /\ UNCHANGED <<prev, bits>>

Spec == Init /\ [][Next]_<<l, prev, bits>>

(* the builder state is always a bit sequence                               *)
BitsOK == IsBits(bits)
=============================================================================
