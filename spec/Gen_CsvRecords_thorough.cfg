INIT GInit
NEXT GNext
CONSTANTS
  NCols = 2
  MaxLen = 6
  Alphabet = {"d", "q", "r", "n", "o"}
  BatchSizes = {1, 2}
CHECK_DEADLOCK FALSE
