---------------------------- MODULE Trace_Chunk ----------------------------
(***************************************************************************)
(* C14, impl -> spec: recorded sessions of the real push decoders (IPC     *)
(* StreamDecoder, CSV Decoder, JSON Decoder, Avro Reader over a chunked    *)
(* source / Avro Decoder, ParquetMetaDataPushDecoder, Flight decoder).     *)
(*                                                                         *)
(* Events (harness/p/c14):                                                 *)
(*   oneshot  what the pull reader returns for (input, batch size): the    *)
(*            reference; starts a group                                    *)
(*   session  the same input delivered cut at `cuts`, driven by the        *)
(*            documented protocol; the first session of a group is the     *)
(*            whole input in one chunk (the base of the group)             *)
(* Every session must have the same outcome class, the same rows in the    *)
(* same order and the same schema as the base, whatever the cuts; no batch *)
(* may exceed the batch size; the base must equal the one-shot reader.     *)
(***************************************************************************)
EXTENDS ChunkOps, TraceBase

VARIABLES l, ref, base

Rows(ev) == Flatten(ev.batches)

(* schema id the harness logs when the decoder reports no schema (FNV-1a of "") *)
NoSchema == "cbf29ce484222325"

ByteFormats == {"ipc", "csv", "json", "avro-ocf", "avro-soe", "avro-confluent"}
Soe(f) == f \in {"avro-soe", "avro-confluent"}

(* ---- shape of a session ---- *)
CallsOk(ev) ==
  /\ Len(ev.offered) = Len(ev.consumed)
  /\ \A i \in DOMAIN ev.consumed : ev.consumed[i] >= 0 /\ ev.consumed[i] <= ev.offered[i]
  /\ ev.fmt \in ByteFormats => ev.tot <= ev.n
  \* a successful session has consumed the whole input (CSV: with_bounds stops before the end)
  /\ (ev.fmt \in ByteFormats \ {"csv"} /\ ev.out = "ok") => ev.tot = ev.n

(* the harness itself: with a BufRead-like source every call is offered exactly the rest of the  *)
(* current chunk (nothing skipped, nothing presented twice; 0 bytes only at the end of the input) *)
RECURSIVE WindowOk(_, _, _)
WindowOk(ev, i, pos) ==
  IF i > Len(ev.offered) THEN TRUE
  ELSE LET later == {e \in {ev.cuts[j] : j \in DOMAIN ev.cuts} \cup {ev.n} : e > pos}
           want == IF later = {} THEN 0 ELSE (CHOOSE e \in later : \A e2 \in later : e <= e2) - pos
       IN ev.offered[i] = want /\ WindowOk(ev, i + 1, pos + ev.consumed[i])
ProtocolOk(ev) ==
  (ev.fmt \in {"ipc", "csv", "json", "avro-ocf"} /\ ev.mode \in {"canon", "slice"} /\ Len(ev.offered) = ev.ncalls
     /\ Len(ev.consumed) = ev.ncalls) => WindowOk(ev, 1, 0)

NonEmptyBatches(ev) == ev.bs = 0 \/ \A i \in DOMAIN ev.batches : Len(ev.batches[i]) >= 1

(* ---- known finding (DESIGN 5.1): Avro single-object / Confluent framing, a chunk boundary ---- *)
(* ---- strictly inside a record body                                                        ---- *)
InBody(c, bodies) == \E i \in DOMAIN bodies : bodies[i][1] < c /\ c < bodies[i][2]
CutInBody(ev) == \E j \in DOMAIN ev.cuts : InBody(ev.cuts[j], ref.bodies)
KF(ev) ==
  IF /\ Soe(ev.fmt) /\ CutInBody(ev) /\ ev.out = "err"
     /\ ev.cls \in {"decode:ParseError", "flush:ArrowError.InvalidArgumentError"}
  THEN "C14-avro-soe-body-cut" ELSE ""

(* ---- a session against the base of its group ---- *)
Same(ev) ==
  IF ev.mode = "early" /\ base.out = "err"
  THEN \* early flushes move the batch boundaries: before an error only a prefix is determined
       ev.out = "err" /\ PrefixCompatible(Rows(ev), base.rows)
  ELSE ev.out = base.out /\ ev.cls = base.cls /\ Rows(ev) = base.rows /\ ev.schema = base.schema

(* ---- the base against the one-shot reader ---- *)
(* Pinned differences between the push and the pull API that do not depend on the chunking      *)
(* (DESIGN appendix A and the report of this check); each is allowed in exactly this form.      *)
RefAgrees(ev) ==
  CASE ref.pinned = "" ->
         ev.out = ref.out /\ Rows(ev) = ref.rows /\ ev.schema = ref.schema
    [] ref.pinned = "ipc-zero-body-last-no-eos" ->
         \* the last message has an empty body and no EOS follows: StreamDecoder handles an empty body
         \* only on the next non-empty decode call, so finish() reports an incomplete stream
         /\ ref.out = "ok" /\ ev.out = "err" /\ ev.cls = "finish:IpcError"
         /\ Rows(ev) = ref.rows /\ ev.schema \in {ref.schema, NoSchema}
    [] ref.pinned = "ipc-ends-inside-prefix" ->
         \* input ends inside a continuation marker / length prefix: the pull reader takes it for the
         \* end of the stream, finish() of the push decoder reports it
         /\ ref.out = "ok" /\ ev.out = "err" /\ ev.cls = "finish:IpcError"
         /\ Rows(ev) = ref.rows /\ ev.schema = ref.schema
    [] ref.pinned = "ipc-bytes-after-eos" ->
         \* the pull reader stops reading at the EOS marker, the push decoder is handed the rest
         /\ ref.out = "ok" /\ ev.out = "err" /\ ev.cls = "decode:IpcError"
         /\ Rows(ev) = ref.rows /\ ev.schema = ref.schema
    [] ref.pinned = "ipc-empty-input" ->
         \* no bytes at all: the pull reader fails to read a schema, the push decoder has nothing to report
         /\ ref.out = "err" /\ ev.out = "ok" /\ Rows(ev) = <<>> /\ ref.rows = <<>>
    [] OTHER -> FALSE

Init == /\ l = 1
        /\ ref = [id |-> 1000000, bs |-> 0, n |-> 0, has_ref |-> FALSE, pinned |-> "", out |-> "none", rows |-> <<>>,
                  schema |-> "", bodies |-> <<>>, fmt |-> ""]
        /\ base = [set |-> FALSE, out |-> "", cls |-> "", rows |-> <<>>, schema |-> ""]

OneShot(ev) ==
  /\ ref' = [id |-> ev.id, bs |-> ev.bs, n |-> ev.n, has_ref |-> ev.has_ref, pinned |-> ev.pinned, out |-> ev.out,
             rows |-> ev.rows, schema |-> ev.schema, bodies |-> ev.bodies, fmt |-> ev.fmt]
  /\ base' = [set |-> FALSE, out |-> "", cls |-> "", rows |-> <<>>, schema |-> ""]
  /\ Judge(ev.has_ref = (ev.out # "none") /\ (ev.out = "ok" => ev.cls = ""), l, "malformed oneshot event")

Session(ev) ==
  /\ Judge(ev.id = ref.id /\ ev.bs = ref.bs /\ ev.n = ref.n /\ ev.fmt = ref.fmt, l, "session outside its group")
  /\ Judge(ValidCuts(ev.cuts, ev.n), l, "cuts are not a chunking of the input")
  /\ Judge(ev.out \in {"ok", "err"} /\ (ev.out = "ok") = (ev.cls = ""), l, "malformed outcome")
  /\ Judge(BatchBound(ev.batches, ev.bs), l, <<"batch > batch_size", ev.fmt>>)
  /\ Judge(NonEmptyBatches(ev), l, <<"empty batch emitted", ev.fmt>>)
  /\ Judge(CallsOk(ev), l, <<"consumed/offered", ev.fmt>>)
  /\ Judge(ProtocolOk(ev), l, <<"harness left the protocol", ev.fmt>>)
  /\ IF ~base.set
     THEN /\ base' = [set |-> TRUE, out |-> ev.out, cls |-> ev.cls, rows |-> Rows(ev), schema |-> ev.schema]
          /\ Judge(ev.cuts = <<>> /\ ev.mode = "canon", l, "a group must start with the whole input")
          /\ Judge(ref.has_ref => RefAgrees(ev), l,
                   <<"differs from one-shot reader", ev.fmt>>)
     ELSE /\ UNCHANGED base
          /\ JudgeKF(Same(ev), l, "chunk-dependent", KF(ev))
  /\ UNCHANGED ref

Next == /\ l <= Len(Rec)
        /\ l' = l + 1
        /\ LET ev == Rec[l] IN
           CASE ev.op = "oneshot" -> OneShot(ev)
             [] ev.op = "session" -> Session(ev)
             [] OTHER -> Judge(FALSE, l, "unknown event") /\ UNCHANGED <<ref, base>>

Spec == Init /\ [][Next]_<<l, ref, base>>
=============================================================================
