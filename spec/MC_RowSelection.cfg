SPECIFICATION Spec
CONSTANTS
  MaxRuns = 3
  MaxRun = 4
  MaxRows = 8
  MaxPages = 3
INVARIANTS L_Normalise L_AndThen L_Intersection L_Union L_SplitOff L_Offset L_Limit L_OffsetLimit L_Trim L_FromFilters L_ScanRanges L_Expand
CHECK_DEADLOCK FALSE
