--------------------------- MODULE MC_AvroEncoding ---------------------------
(* Design-level check of AvroEncoding.tla (C17).  TLC evaluates                  *)
(*   * Decode(Encode(v, s), s) = v for EVERY value of a list of schemas: longs   *)
(*     and ints over a boundary set (0, +-1, 63 / 64, -64 / -65, 8191 / 8192,    *)
(*     2^31 - 1, -2^31, 2^31, 2^63 - 1, -2^63), byte strings and strings up to a *)
(*     length over boundary bytes, fixed, enum, float / double patterns, arrays, *)
(*     maps, records, optional and general unions, nested ("value" mode);        *)
(*   * the zig-zag varint table of the Avro specification, the canonical length, *)
(*     and that a decoder reads every blocking of an array (negative counts with *)
(*     byte sizes, several blocks) to the same items ("blocks" mode);            *)
(*   * DecLong is total on EVERY byte string up to a length over boundary bytes, *)
(*     accepts exactly one encoding per value that is canonical, and            *)
(*     Encode(Decode(b)) = b for canonical b ("bytes" mode);                     *)
(*   * OcfParse(OcfWrite(meta, sync, blocks)) returns them ("ocf" mode).         *)
EXTENDS AvroEncoding, TLC, FiniteSets

CONSTANTS MaxBytes,    \* length of byte strings / strings
          MaxItems,    \* items per array / map
          MaxRaw,      \* length of raw byte strings in "bytes" mode
          Deep,        \* TRUE: also the widest nested record schema
          Modes

SeqsUpTo(S, n) == UNION {[1..k -> S] : k \in 0..n}

W(n) == B!ToWire(B!FromInt(n))
MaxI64 == <<0, 5807, 5477, 368, 3372, 922>>       \*  9223372036854775807
MinI64 == <<1, 5808, 5477, 368, 3372, 922>>       \* -9223372036854775808
Ints32 == {W(0), W(1), W(-1), W(63), W(64), W(-64), W(-65), W(8191), W(8192), W(-8193), W(2147483647), <<1, 3648, 4748, 21>>}
Longs == Ints32 \cup {<<0, 3648, 4748, 21>>, <<1, 3649, 4748, 21>>, MaxI64, MinI64}
SmallLongs == {W(0), W(-1), W(64), MinI64}
ByteAlpha == {0, 97, 127, 128, 255}

SLong == Prim("long")   SInt == Prim("int")   Bool == Prim("boolean")   Null == Prim("null")
Strg == Prim("string") Byts == Prim("bytes") Dbl == Prim("double")    Flt == Prim("float")
Opt(s) == Sch("union", 0, <<Null, s>>)
OptLast(s) == Sch("union", 0, <<s, Null>>)
Array(s) == Sch("array", 0, <<s>>)
Map(s) == Sch("map", 0, <<s>>)
Record(fs) == Sch("record", 0, fs)
Union(bs) == Sch("union", 0, bs)

Schemas == {
  SLong, SInt, Bool, Null, Strg, Byts, Dbl, Flt, Sch("fixed", 2, <<>>), Sch("fixed", 0, <<>>), Sch("enum", 3, <<>>),
  Opt(SLong), OptLast(Strg), Array(SLong), Array(Opt(Bool)), Map(SInt), Map(Array(Bool)),
  Record(<<SLong, Opt(Strg), Bool>>), Record(<<>>), Record(<<Dbl, Record(<<SInt, OptLast(Byts)>>)>>),
  Union(<<SLong, Strg, Null, Array(Bool)>>), Union(<<Null, SInt, SLong>>),
  Array(Record(<<Bool, Opt(Sch("enum", 2, <<>>))>>)),
  Record(<<Array(Array(Bool)), Union(<<Strg, Byts>>)>>), Record(<<Map(Opt(Bool)), OptLast(SLong)>>) }
  \cup (IF Deep THEN {Record(<<Array(Array(Bool)), Map(Opt(Bool)), Union(<<Strg, Byts>>)>>)} ELSE {})

RECURSIVE Vals(_, _), Prod(_, _, _)
(* the values of schema s; `top`: the full boundary sets (nested positions use reduced sets) *)
Vals(s, top) ==
  CASE s.k = "null" -> {VNull}
    [] s.k = "boolean" -> {VBool(0), VBool(1)}
    [] s.k = "int" -> {VInt(w) : w \in IF top THEN Ints32 ELSE {W(0), W(-65)}}
    [] s.k = "long" -> {VInt(w) : w \in IF top THEN Longs ELSE SmallLongs}
    [] s.k = "float" -> {VFloat(<<63, 128, 0, 0>>), VFloat(<<255, 192, 0, 1>>)}
    [] s.k = "double" -> {VDouble(<<191, 240, 0, 0, 0, 0, 0, 1>>), VDouble(<<0, 0, 0, 0, 0, 0, 0, 0>>)}
    [] s.k \in {"bytes", "string"} -> {VBytes(b) : b \in SeqsUpTo(IF top THEN ByteAlpha ELSE {0, 128}, IF top THEN MaxBytes ELSE 1)}
    [] s.k = "fixed" -> {VBytes(b) : b \in [1..s.size -> {0, 255}]}
    [] s.k = "enum" -> {VEnum(i) : i \in 0..(s.size - 1)}
    [] s.k = "array" -> {VArr(kids) : kids \in SeqsUpTo(Vals(s.kids[1], FALSE), MaxItems)}
    [] s.k = "map" -> UNION {{VMap([j \in 1..(2 * n) |-> IF j % 2 = 1 THEN VBytes(ks[(j + 1) \div 2]) ELSE vs[j \div 2]]) :
                                  ks \in [1..n -> {<<>>, <<107>>}], vs \in [1..n -> Vals(s.kids[1], FALSE)]} : n \in 0..MaxItems}
    [] s.k = "record" -> {VRec(kids) : kids \in Prod(s.kids, 1, top)}
    [] s.k = "union" -> IF IsOptional(s) THEN {VNull} \cup Vals(s.kids[3 - NullBranch(s)], top)
                        ELSE UNION {{VUnion(j - 1, x) : x \in Vals(s.kids[j], FALSE)} : j \in 1..Len(s.kids)}
Prod(ss, j, top) == IF j > Len(ss) THEN {<<>>} ELSE {<<h>> \o t : h \in Vals(ss[j], top), t \in Prod(ss, j + 1, top)}

VARIABLES mode, s, v, raw
vars == <<mode, s, v, raw>>

Init ==
  \/ /\ "value" \in Modes /\ mode = "value" /\ raw = <<>> /\ s \in Schemas /\ v \in Vals(s, TRUE)
  \/ /\ "blocks" \in Modes /\ mode = "blocks" /\ raw = <<>> /\ s = Array(SLong)
     /\ v \in {VArr(kids) : kids \in SeqsUpTo({VInt(w) : w \in SmallLongs}, 3)}
  \/ /\ "bytes" \in Modes /\ mode = "bytes" /\ s = SLong /\ v = VNull
     /\ raw \in SeqsUpTo({0, 1, 2, 127, 128, 129, 255}, MaxRaw)
  \/ /\ "ocf" \in Modes /\ mode = "ocf" /\ s = SLong /\ v = VNull
     /\ raw \in SeqsUpTo({0, 2, 79, 255}, 2)
Next == UNCHANGED vars
Spec == Init /\ [][Next]_vars

T_Encodable == mode = "value" => Enc(v, s).ok
T_RoundTrip == mode = "value" => RoundTrip(v, s)
(* a datum followed by anything decodes to the same datum (data are self-delimiting) *)
T_SelfDelimiting ==
  mode = "value" => LET e == Enc(v, s).b IN Dec(e \o <<129, 0>>, 1, s) = [ok |-> TRUE, v |-> v, next |-> Len(e) + 1]
(* values of another kind are refused, not mis-encoded *)
T_Typed == mode = "value" => (~Enc(VRec(<<v, v>>), s).ok \/ s = Record(<<>>) \/ s.k = "union")

(* the table of the specification and the length of the encoding *)
T_Table ==
  /\ EncLong(B!FromInt(0)) = <<0>> /\ EncLong(B!FromInt(-1)) = <<1>> /\ EncLong(B!FromInt(1)) = <<2>>
  /\ EncLong(B!FromInt(-2)) = <<3>> /\ EncLong(B!FromInt(2)) = <<4>> /\ EncLong(B!FromInt(-64)) = <<127>>
  /\ EncLong(B!FromInt(64)) = <<128, 1>> /\ EncLong(B!FromInt(8192)) = <<128, 128, 1>> /\ EncLong(B!FromInt(-8193)) = <<129, 128, 1>>
  /\ EncLong(B!FromWire(MaxI64)) = <<254, 255, 255, 255, 255, 255, 255, 255, 255, 1>>
  /\ EncLong(B!FromWire(MinI64)) = <<255, 255, 255, 255, 255, 255, 255, 255, 255, 1>>
  /\ IsInt64(B!FromWire(MaxI64)) /\ IsInt64(B!FromWire(MinI64)) /\ ~IsInt64(B!FromWire(<<0, 5808, 5477, 368, 3372, 922>>))
  /\ IsInt32(B!FromInt(2147483647)) /\ ~IsInt32(B!FromWire(<<0, 3648, 4748, 21>>)) /\ IsInt32(B!FromWire(<<1, 3648, 4748, 21>>))

(* every blocking of the items decodes to the array: one block, one block per item, negative counts with sizes *)
RECURSIVE PerItem(_, _)
PerItem(kids, neg) ==
  IF kids = <<>> THEN <<0>>
  ELSE LET e == Enc(Head(kids), SLong).b IN
       (IF neg THEN EncLong(B!FromInt(-1)) \o EncNat(Len(e)) ELSE EncNat(1)) \o e \o PerItem(Tail(kids), neg)
T_Blocks ==
  mode = "blocks" =>
    /\ Decode(PerItem(v.kids, FALSE), s) = [ok |-> TRUE, v |-> v]
    /\ Decode(PerItem(v.kids, TRUE), s) = [ok |-> TRUE, v |-> v]
    /\ (v.kids # <<>> =>
          LET all == EncodeRows(v.kids, SLong).b IN
          Decode(EncLong(B!FromInt(0 - Len(v.kids))) \o EncNat(Len(all)) \o all \o <<0>>, s) = [ok |-> TRUE, v |-> v])
    /\ (v.kids # <<>> =>     \* a wrong byte size is refused
          LET all == EncodeRows(v.kids, SLong).b IN
          ~Decode(EncLong(B!FromInt(0 - Len(v.kids))) \o EncNat(Len(all) + 1) \o all \o <<0>>, s).ok)

(* DecLong on arbitrary bytes: total; what it accepts re-encodes to the consumed bytes iff they are canonical *)
Canonical(b, e) == e = 1 \/ b[e] # 0                 \* no padding group
T_Bytes ==
  mode = "bytes" =>
    LET r == DecLong(raw, 1) IN
    /\ r.ok \in BOOLEAN
    /\ (r.ok => IsInt64(r.x) /\ (EncLong(r.x) = SubSeq(raw, 1, r.next - 1)) = Canonical(raw, r.next - 1))
    /\ (~r.ok => (raw = <<>> \/ \A j \in 1..Len(raw) : raw[j] >= 128))

T_Ocf ==
  mode = "ocf" =>
    LET meta == <<[key |-> <<97>>, val |-> raw], [key |-> raw, val |-> <<>>]>>
        sync == [j \in 1..SyncLen |-> (j * 17) % 256]
        blocks == <<[count |-> 2, data |-> raw \o raw], [count |-> 0, data |-> <<>>], [count |-> 1, data |-> raw]>>
    IN /\ OcfParse(OcfWrite(meta, sync, blocks)) = [ok |-> TRUE, meta |-> meta, sync |-> sync, blocks |-> blocks]
       /\ OcfParse(OcfWrite(<<>>, sync, <<>>)) = [ok |-> TRUE, meta |-> <<>>, sync |-> sync, blocks |-> <<>>]
       /\ ~OcfParse(Tail(OcfWrite(meta, sync, blocks))).ok
       /\ MetaGet(meta, <<97>>) = raw
=============================================================================
