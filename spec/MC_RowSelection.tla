--------------------------- MODULE MC_RowSelection ---------------------------
(***************************************************************************)
(* Algebra laws of RowSelection, checked exhaustively: TLC builds every    *)
(* pair of run lists <<a, b>> with at most MaxRuns runs of 0..MaxRun rows  *)
(* (empty runs and adjacent runs of the same kind included -- the inputs   *)
(* the crate-internal algorithms accept) and at most MaxRows rows, and     *)
(* evaluates in every state that each run list algorithm (RowSelection     *)
(* part 2) denotes the corresponding operation on positions (part 1).      *)
(***************************************************************************)
EXTENDS RowSelection, TLC

CONSTANTS MaxRuns, MaxRun, MaxRows, MaxPages

VARIABLES a, b
vars == <<a, b>>

Init == a = <<>> /\ b = <<>>

(* a grows first, then b: every pair is reached exactly once                 *)
ExtendA == /\ b = <<>> /\ Len(a) < MaxRuns
           /\ \E n \in 0..MaxRun, s \in {0, 1} : SumN(a) + n <= MaxRows /\ a' = Append(a, <<n, s>>)
           /\ UNCHANGED b
ExtendB == /\ Len(b) < MaxRuns
           /\ \E n \in 0..MaxRun, s \in {0, 1} : SumN(b) + n <= MaxRows /\ b' = Append(b, <<n, s>>)
           /\ UNCHANGED a
Next == ExtendA \/ ExtendB
Spec == Init /\ [][Next]_vars

A == Bits(a)
B == Bits(b)
HasZero(rs) == \E i \in 1..Len(rs) : rs[i][1] = 0

(* ------------------------------ laws ---------------------------------- *)
(* laws about one selection are evaluated in the states with b = <<>>        *)
L_Normalise == b = <<>> =>
               /\ NormalForm(Normalise(a)) /\ Bits(Normalise(a)) = A
               /\ Normalise(a) = NF(A)                      \* the normal form is unique
               /\ SumN(a) = Len(A) /\ SumSel(a) = Count(A)

L_AndThen ==
  LET r == AndThenRuns(a, b) IN
  /\ (SumN(b) = SumSel(a) /\ ~HasZero(a) /\ ~HasZero(b)) => ~r.err
  /\ r.err => (SumN(b) # SumSel(a) \/ HasZero(a) \/ HasZero(b))
  /\ (~r.err /\ SumN(b) = SumSel(a)) => Bits(r.runs) = AndThenBits(A, B)
  /\ (~r.err /\ NormalForm(a) /\ NormalForm(b)) => (SumN(b) = SumSel(a) /\ NormalForm(r.runs))
  (* composing = intersecting positions: the result selects the rows of a    *)
  (* whose rank is selected by b                                             *)
  /\ (~r.err /\ SumN(b) = SumSel(a)) =>
        Positions(Bits(r.runs)) = {i \in Positions(A) : Rank(A, i) \in Positions(B)}

L_Intersection ==
  LET r == IntersectRuns(a, b) IN
  /\ NormalForm(r) /\ Bits(r) = InterBits(A, B)
  /\ Len(A) = Len(B) => Positions(Bits(r)) = Positions(A) \cap Positions(B)

L_Union ==
  LET r == UnionRuns(a, b) IN
  /\ NormalForm(r) /\ Bits(r) = UnionBits(A, B)
  /\ Len(A) = Len(B) => Positions(Bits(r)) = Positions(A) \cup Positions(B)

L_SplitOff == b = <<>> =>
  \A k \in 0..(Len(A) + 1) :
     LET r == SplitOffRuns(a, k) IN
     /\ Bits(r[1]) = SplitHeadBits(A, k) /\ Bits(r[2]) = SplitTailBits(A, k)
     /\ Bits(r[1]) \o Bits(r[2]) = A
     /\ NormalForm(a) => (NormalForm(r[1]) /\ NormalForm(r[2]))

L_Offset == b = <<>> =>
  \A k \in 0..(Count(A) + 1) :
     LET r == OffsetRuns(a, k) IN
     /\ Bits(r) = OffsetBits(A, k)
     /\ Positions(Bits(r)) = {i \in Positions(A) : Rank(A, i) > k}
     /\ (NormalForm(a) /\ k > 0) => NormalForm(r)

L_Limit == b = <<>> =>
  \A k \in 0..(Count(A) + 1) :
     LET r == LimitRuns(a, k) IN
     /\ ~HasZero(a) => Bits(r) = LimitBits(A, k)
     /\ Positions(Bits(r)) = {i \in Positions(A) : Rank(A, i) <= k}
     /\ NormalForm(a) => NormalForm(r)

(* offset then limit = the window of selected rows k1+1 .. k1+k2            *)
L_OffsetLimit == b = <<>> =>
  \A k1 \in 0..Count(A), k2 \in 0..2 :
     Positions(Bits(LimitRuns(OffsetRuns(a, k1), k2))) =
        {i \in Positions(A) : Rank(A, i) > k1 /\ Rank(A, i) <= k1 + k2}

L_Trim == b = <<>> =>
          /\ Bits(TrimRuns(a)) = TrimBits(A) \/ HasZero(a)
          /\ Positions(Bits(TrimRuns(a))) = Positions(A)
          /\ NormalForm(a) => Bits(TrimRuns(a)) = TrimBits(A)

(* from_filters over the chunking of A into the pieces Bits(b) prescribes is *)
(* the normal form of A (b is used as a chunking: its run lengths)            *)
RECURSIVE Chunk(_, _)
Chunk(bits, lens) ==
  IF lens = <<>> THEN (IF bits = <<>> THEN <<>> ELSE <<bits>>)
  ELSE LET n == Min2(Head(lens), Len(bits)) IN
       Cons(SubSeq(bits, 1, n), Chunk(SubSeq(bits, n + 1, Len(bits)), Tail(lens)))
L_FromFilters ==
  LET parts == Chunk(A, [i \in 1..Len(b) |-> b[i][1]]) IN
  /\ ConcatAll(parts) = A
  /\ FromFilters(parts) = NF(A)
  /\ FromConsecutiveRanges(SetSlices(A), Len(A)) = NF(A)
  /\ RangesValid(SetSlices(A), Len(A)) /\ RangesBits(SetSlices(A), Len(A)) = A

(* page layouts: every strictly increasing sequence of first row indices    *)
(* starting at 0 with at most MaxPages pages                                *)
Layouts == UNION {{f \in [1..n -> 0..MaxRows] : f[1] = 0 /\ \A i \in 1..(n - 1) : f[i] < f[i + 1]} : n \in 1..MaxPages}
RECURSIVE SeqToSet(_)
SeqToSet(s) == IF s = <<>> THEN {} ELSE {Head(s)} \cup SeqToSet(Tail(s))
Increasing(s) == \A i \in 1..(Len(s) - 1) : s[i] < s[i + 1]
L_ScanRanges ==
  b = <<>> =>       \* unary law: checked once per a
    \A f \in Layouts :
       LET r == ScanPagesRuns(a, f) IN
       ~HasZero(a) => (Increasing(r) /\ SeqToSet(r) = ScanPagesBits(A, f))

L_Expand ==
  b = <<>> =>
    \A bs \in 0..3 :
       LET total == Len(A)
           r == ExpandRuns(a, bs, total) IN
       /\ ~HasZero(a) => (Bits(r) = ExpandBits(A, bs, total) \/ (bs = 0 /\ r = a))
       /\ Positions(A) \subseteq Positions(Bits(r))

Laws == /\ L_Normalise /\ L_AndThen /\ L_Intersection /\ L_Union /\ L_SplitOff /\ L_Offset
        /\ L_Limit /\ L_OffsetLimit /\ L_Trim /\ L_FromFilters /\ L_ScanRanges /\ L_Expand
=============================================================================
