SPECIFICATION Spec
CONSTANTS
  MaxPages = 2
  MaxVals = 2
  Domain = {"nan", "neg"}
INVARIANTS PagesSound ChunkSound BoundarySound ChunkIsFold
CHECK_DEADLOCK FALSE
