SPECIFICATION Spec
POSTCONDITION Post
CHECK_DEADLOCK FALSE
