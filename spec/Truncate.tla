------------------------------ MODULE Truncate ------------------------------
(***************************************************************************)
(* Truncation of long binary / string statistics bounds (property C07).     *)
(*                                                                         *)
(* The property: a stored lower bound t of a value d must satisfy t <= d,   *)
(* a stored upper bound must satisfy d <= t, under the unsigned             *)
(* lexicographic byte order (a proper prefix is smaller); for a UTF-8       *)
(* column the stored bound of a valid string must itself be valid UTF-8; a  *)
(* bound flagged exact is the value.  That is all trace validation asks of  *)
(* the implementation (IsLowerBound / IsUpperBound).                        *)
(*                                                                         *)
(* TruncMin / TruncMax below transcribe the rule the crate documents        *)
(* (parquet/src/column/writer/mod.rs: truncate_min_value,                   *)
(* truncate_max_value, truncate_utf8, truncate_and_increment_utf8,          *)
(* increment_utf8, increment): cut to at most l bytes -- at a character     *)
(* boundary for valid UTF-8 -- and, for the upper bound, increment the last *)
(* byte (with carry) resp. the last code point that can be incremented      *)
(* without changing its encoded width; when no cut or no increment exists,  *)
(* keep the full value.  MC_Truncate checks                                 *)
(*     TruncMin(d, l) <= d <= TruncMax(d, l)                                *)
(* and UTF-8 preservation over a bounded universe: the documented rule      *)
(* implies the property.                                                    *)
(***************************************************************************)
EXTENDS Naturals, Integers, Sequences, Utf8

(* unsigned lexicographic order on byte sequences: -1, 0, 1                 *)
RECURSIVE BytesCmpFrom(_, _, _)
BytesCmpFrom(s, t, i) ==
  IF i > Len(s) THEN (IF i > Len(t) THEN 0 ELSE -1)
  ELSE IF i > Len(t) THEN 1
  ELSE IF s[i] < t[i] THEN -1
  ELSE IF s[i] > t[i] THEN 1
  ELSE BytesCmpFrom(s, t, i + 1)
BytesCmp(s, t) == BytesCmpFrom(s, t, 1)
BytesLeq(s, t) == BytesCmp(s, t) <= 0

(***************************************************************************)
(* The property.                                                            *)
(***************************************************************************)
IsLowerBound(t, d, exact, utf8) ==
  /\ BytesLeq(t, d)
  /\ exact => t = d
  /\ (utf8 /\ Valid(d)) => Valid(t)
IsUpperBound(t, d, exact, utf8) ==
  /\ BytesLeq(d, t)
  /\ exact => t = d
  /\ (utf8 /\ Valid(d)) => Valid(t)

(***************************************************************************)
(* The documented rule.  Results are [v |-> bytes, cut |-> truncated?].     *)
(***************************************************************************)
Kept(d) == [v |-> d, cut |-> FALSE]
Cut(v) == [v |-> v, cut |-> TRUE]
Prefix(d, n) == SubSeq(d, 1, n)

(* increment: add one to the last byte that is not 0xFF; the 0xFF bytes     *)
(* after it wrap to 0x00 (the length does not change); none if all are 0xFF *)
CanIncrement(b) == \E i \in 1..Len(b) : b[i] # 255
Increment(b) ==
  LET p == CHOOSE i \in 1..Len(b) : b[i] # 255 /\ \A j \in (i + 1)..Len(b) : b[j] = 255 IN
  [i \in 1..Len(b) |-> IF i < p THEN b[i] ELSE IF i = p THEN b[i] + 1 ELSE 0]

(* UTF-8: code points of a valid string as <<start index, length, value>>   *)
RECURSIVE CharsFrom(_, _)
CharsFrom(b, i) ==
  IF i > Len(b) THEN <<>>
  ELSE LET n == SeqLenAt(b, i, Len(b)) IN
       <<[at |-> i, n |-> n, cp |-> CodePoint(b, i + 1, n - 1, Payload(b[i], n))]>> \o CharsFrom(b, i + n)
Chars(b) == CharsFrom(b, 1)

EncLen(cp) == IF cp < 128 THEN 1 ELSE IF cp < 2048 THEN 2 ELSE IF cp < 65536 THEN 3 ELSE 4
IsScalar(cp) == cp <= 1114111 /\ ~(cp >= 55296 /\ cp <= 57343)
Encode(cp) ==
  CASE cp < 128   -> <<cp>>
    [] cp < 2048  -> <<192 + (cp \div 64), 128 + (cp % 64)>>
    [] cp < 65536 -> <<224 + (cp \div 4096), 128 + ((cp \div 64) % 64), 128 + (cp % 64)>>
    [] OTHER      -> <<240 + (cp \div 262144), 128 + ((cp \div 4096) % 64), 128 + ((cp \div 64) % 64), 128 + (cp % 64)>>

(* increment_utf8: the last character whose successor is a scalar value of  *)
(* the same encoded width is replaced by that successor, what follows is    *)
(* dropped                                                                  *)
Incrementable(c) == IsScalar(c.cp + 1) /\ EncLen(c.cp + 1) = c.n
CanIncrementUtf8(b) == \E k \in 1..Len(Chars(b)) : Incrementable(Chars(b)[k])
IncrementUtf8(b) ==
  LET cs == Chars(b)
      k == CHOOSE k \in 1..Len(cs) : Incrementable(cs[k]) /\ \A j \in (k + 1)..Len(cs) : ~Incrementable(cs[j])
  IN Prefix(b, cs[k].at - 1) \o Encode(cs[k].cp + 1)

(* largest character boundary in lo..hi of the valid string d, -1 if none   *)
LastBoundary(d, lo, hi) ==
  IF \E x \in lo..hi : IsCharBoundary(d, x)
  THEN CHOOSE x \in lo..hi : IsCharBoundary(d, x) /\ \A y \in (x + 1)..hi : ~IsCharBoundary(d, y)
  ELSE 0 - 1

TruncMin(d, l, utf8) ==
  IF Len(d) <= l THEN Kept(d)
  ELSE IF utf8 /\ Valid(d)
       THEN LET s == LastBoundary(d, 1, l) IN IF s < 0 THEN Kept(d) ELSE Cut(Prefix(d, s))
       ELSE Cut(Prefix(d, l))

TruncMax(d, l, utf8) ==
  IF Len(d) <= l THEN Kept(d)
  ELSE IF utf8 /\ Valid(d)
       THEN LET s == LastBoundary(d, IF l >= 3 THEN l - 3 ELSE 0, l) IN
            IF s < 0 \/ ~CanIncrementUtf8(Prefix(d, s)) THEN Kept(d) ELSE Cut(IncrementUtf8(Prefix(d, s)))
       ELSE IF CanIncrement(Prefix(d, l)) THEN Cut(Increment(Prefix(d, l))) ELSE Kept(d)

(***************************************************************************)
(* Theorem: the documented rule yields bounds.                              *)
(***************************************************************************)
TruncationSound(d, l, utf8) ==
  LET lo == TruncMin(d, l, utf8)
      hi == TruncMax(d, l, utf8)
  IN /\ IsLowerBound(lo.v, d, ~lo.cut, utf8)
     /\ IsUpperBound(hi.v, d, ~hi.cut, utf8)
     /\ lo.cut => Len(lo.v) <= l /\ Len(lo.v) >= 1
     /\ hi.cut => Len(hi.v) <= l /\ Len(hi.v) >= 1
     (* a cut upper bound is strictly above the value: it is not the value *)
     /\ hi.cut => BytesCmp(d, hi.v) < 0
=============================================================================
