-------------------------------- MODULE Utf8 --------------------------------
(***************************************************************************)
(* UTF-8 validity of byte sequences (bytes are integers 0..255).           *)
(*                                                                         *)
(* Written from the Unicode Standard, chapter 3, table 3-7 "Well-Formed    *)
(* UTF-8 Byte Sequences" (= RFC 3629 section 4):                           *)
(*                                                                         *)
(*   U+0000..U+007F      00..7F                                            *)
(*   U+0080..U+07FF      C2..DF 80..BF                                     *)
(*   U+0800..U+0FFF      E0     A0..BF 80..BF      (no overlong 3-byte)    *)
(*   U+1000..U+CFFF      E1..EC 80..BF 80..BF                              *)
(*   U+D000..U+D7FF      ED     80..9F 80..BF      (no surrogates)         *)
(*   U+E000..U+FFFF      EE..EF 80..BF 80..BF                              *)
(*   U+10000..U+3FFFF    F0     90..BF 80..BF 80..BF (no overlong 4-byte)  *)
(*   U+40000..U+FFFFF    F1..F3 80..BF 80..BF 80..BF                       *)
(*   U+100000..U+10FFFF  F4     80..8F 80..BF 80..BF (<= U+10FFFF)         *)
(*                                                                         *)
(* C0, C1 (overlong 2-byte), F5..FF never appear.                          *)
(*                                                                         *)
(* `DecodeValid` is a second, independent definition (decode the code      *)
(* point arithmetically, then require shortest form, no surrogate,         *)
(* <= U+10FFFF); MC_Utf8 checks that both agree on a bounded universe and  *)
(* checks the concatenation / boundary laws.                               *)
(***************************************************************************)
EXTENDS Naturals, Sequences

In(x, lo, hi) == x >= lo /\ x <= hi
IsCont(x) == In(x, 128, 191)

(* length of the well-formed sequence that starts at index i (1-based) of b  *)
(* and ends at or before index hi; 0 if there is none                        *)
SeqLenAt(b, i, hi) ==
  LET b0 == b[i]
      C(k) == i + k <= hi /\ IsCont(b[i + k])            \* k-th following byte is a continuation byte
      R(k, lo, up) == i + k <= hi /\ In(b[i + k], lo, up)
  IN IF b0 <= 127 THEN 1
     ELSE IF In(b0, 194, 223) THEN (IF C(1) THEN 2 ELSE 0)
     ELSE IF b0 = 224 THEN (IF R(1, 160, 191) /\ C(2) THEN 3 ELSE 0)
     ELSE IF In(b0, 225, 236) \/ In(b0, 238, 239) THEN (IF C(1) /\ C(2) THEN 3 ELSE 0)
     ELSE IF b0 = 237 THEN (IF R(1, 128, 159) /\ C(2) THEN 3 ELSE 0)
     ELSE IF b0 = 240 THEN (IF R(1, 144, 191) /\ C(2) /\ C(3) THEN 4 ELSE 0)
     ELSE IF In(b0, 241, 243) THEN (IF C(1) /\ C(2) /\ C(3) THEN 4 ELSE 0)
     ELSE IF b0 = 244 THEN (IF R(1, 128, 143) /\ C(2) /\ C(3) THEN 4 ELSE 0)
     ELSE 0

(* b[i..hi] (1-based, inclusive) is a concatenation of well-formed sequences *)
RECURSIVE ValidFrom(_, _, _)
ValidFrom(b, i, hi) ==
  IF i > hi THEN TRUE
  ELSE LET n == SeqLenAt(b, i, hi) IN
       IF n = 0 THEN FALSE ELSE ValidFrom(b, i + n, hi)

(* the bytes b[lo+1 .. hi] (0-based half-open range [lo, hi)) are valid      *)
(* UTF-8; requires 0 <= lo <= hi <= Len(b)                                   *)
ValidRange(b, lo, hi) == ValidFrom(b, lo + 1, hi)

Valid(b) == ValidFrom(b, 1, Len(b))

(* position k (0-based, 0..Len(b)) of a *valid* string is a character        *)
(* boundary iff it is an end or the byte there is not a continuation byte    *)
(* (Rust `str::is_char_boundary`)                                            *)
IsCharBoundary(b, k) == k = 0 \/ k = Len(b) \/ (k < Len(b) /\ ~IsCont(b[k + 1]))

(***************************************************************************)
(* Independent definition by decoding.                                     *)
(***************************************************************************)
Lead(b0) ==            \* number of bytes announced by the lead byte, 0 = not a lead byte
  IF b0 <= 127 THEN 1
  ELSE IF In(b0, 192, 223) THEN 2
  ELSE IF In(b0, 224, 239) THEN 3
  ELSE IF In(b0, 240, 247) THEN 4
  ELSE 0

Payload(b0, n) == IF n = 1 THEN b0 ELSE IF n = 2 THEN b0 - 192 ELSE IF n = 3 THEN b0 - 224 ELSE b0 - 240

RECURSIVE CodePoint(_, _, _, _)
CodePoint(b, i, k, acc) ==       \* fold k continuation bytes starting at index i
  IF k = 0 THEN acc ELSE CodePoint(b, i + 1, k - 1, acc * 64 + (b[i] - 128))

MinCp(n) == IF n = 1 THEN 0 ELSE IF n = 2 THEN 128 ELSE IF n = 3 THEN 2048 ELSE 65536

RECURSIVE DecodeValidFrom(_, _)
DecodeValidFrom(b, i) ==
  IF i > Len(b) THEN TRUE
  ELSE LET n == Lead(b[i]) IN
       IF n = 0 \/ i + n - 1 > Len(b) THEN FALSE
       ELSE IF \E k \in 1..(n - 1) : ~IsCont(b[i + k]) THEN FALSE
       ELSE LET cp == CodePoint(b, i + 1, n - 1, Payload(b[i], n)) IN
            /\ cp >= MinCp(n)                       \* shortest form
            /\ ~In(cp, 55296, 57343)                \* no surrogates D800..DFFF
            /\ cp <= 1114111                        \* <= U+10FFFF
            /\ DecodeValidFrom(b, i + n)
DecodeValid(b) == DecodeValidFrom(b, 1)
=============================================================================
