SPECIFICATION Spec
CONSTANTS W = 4
POSTCONDITION AllConsumed
CHECK_DEADLOCK FALSE
