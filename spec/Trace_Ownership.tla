--------------------------- MODULE Trace_Ownership ---------------------------
(***************************************************************************)
(* impl -> spec (C16): histories of real Buffers, arrays, FFI structs and  *)
(* a TrackingMemoryPool, recorded by harness/p/c16, are replayed through   *)
(* the effects of Ownership.tla.  After every call the driver logs what    *)
(* the public API shows: for every live handle the strong count of each of *)
(* its buffers (Buffer::strong_count) and what it shows (values, validity  *)
(* bits); the drop counter of every custom owner (which also scribbles the *)
(* memory) and the release-callback count of every exported C struct;      *)
(* TrackingMemoryPool::used(); for in-place attempts whether they          *)
(* succeeded and whether the result lives at the same address.  Everything *)
(* must be what the specification computes; the invariants O1..O5 of       *)
(* Ownership.tla are evaluated by TLC in every state of the trace.         *)
(*                                                                         *)
(* Events: reset | end | new | newn (array of a nested type) | clone |     *)
(* slice | wrap | wrapn | drop | drop_many                                 *)
(* (handles dropped concurrently by several real threads; logged after the *)
(* join) | into_mutable | into_vec | unary_mut | into_builder |            *)
(* try_unary_mut | try_unary_mut_err | xor | shrink | claim | export | import |      *)
(* stream_export | stream_next.                                            *)
(***************************************************************************)
EXTENDS Ownership, TraceBase

VARIABLES l, st

Empty == [rg |-> [r \in Regions |-> NoRegion], hd |-> [x \in Handles |-> NoHandle], pool |-> 0]

J(ok, what) == Judge(ok, l, what)

RECURSIVE DropAll(_, _, _)
DropAll(S, xs, i) == IF i > Len(xs) THEN S ELSE DropAll(Drop(S, xs[i]), xs, i + 1)

ArrayOps == {"unary_mut", "into_builder", "try_unary_mut"}

(* An empty buffer has no memory: its pointer is a dangling constant, so the  *)
(* logged "same address" says nothing (two different empty regions coincide). *)
(* For an empty handle the specification itself decides whether `^=` works in *)
(* place or on a copy; the strong counts, the pool and the release counters   *)
(* logged after the call still tell the two apart wherever they differ.       *)
EmptyHandle(x) == st.hd[x].len = 0
XorInPlaceTaken(ev) == IF EmptyHandle(ev.x) THEN BufferInPlaceOK(st, ev.x) ELSE ev.same

(* state after the call, given what the call reported (ok / same / res)      *)
After(ev) ==
  CASE ev.op = "new"     -> New(st, ev.r, ev.kind, ev.bits, ev.mem, ev.size, ev.x)
    [] ev.op = "newn"    -> NewNested(st, ev.rs, ev.x, ev.rows)
    [] ev.op = "clone"   -> Clone(st, ev.x, ev.y)
    [] ev.op = "slice"   -> Slice(st, ev.x, ev.y, ev.o, ev.n)
    [] ev.op = "wrap"    -> Wrap(st, ev.x, ev.y)
    [] ev.op = "wrapn"   -> WrapN(st, ev.x, ev.xn, ev.y)
    [] ev.op = "drop"    -> Drop(st, ev.x)
    [] ev.op = "drop_many" -> DropAll(st, ev.xs, 1)
    [] ev.op = "into_mutable" -> IF ev.ok THEN BufferMutate(st, ev.x) ELSE st
    [] ev.op = "into_vec"     -> IF ev.ok THEN Unclaim(BufferMutate(st, ev.x), st.hd[ev.x].refs[1]) ELSE st
    [] ev.op \in ArrayOps     -> IF ev.ok THEN ArrayMutate(st, ev.x, ev.op = "try_unary_mut", ev.size) ELSE ArrayDecline(st, ev.x, ev.nr, ev.nsize)
    [] ev.op = "try_unary_mut_err" -> IF ev.ok THEN Drop(st, ev.x) ELSE ArrayDecline(st, ev.x, ev.nr, ev.nsize)
    [] ev.op = "xor"     -> IF XorInPlaceTaken(ev) THEN XorInPlace(st, ev.x) ELSE XorCopy(st, ev.x, ev.nr, ev.size)
    [] ev.op = "shrink"  -> ShrinkToFit(st, ev.x)
    [] ev.op = "claim"   -> Claim(st, ev.x)
    [] ev.op = "export"  -> Export(st, ev.x, ev.e, ev.nr)
    [] ev.op = "import"  -> Import(st, ev.e)
    [] ev.op = "stream_export" -> StreamExport(st, ev.x, ev.s)
    [] ev.op = "stream_next"   -> IF ev.got THEN StreamNext(st, ev.s, ev.y, ev.nr) ELSE st
    [] OTHER -> st

(* the call is one the specification offers in this state                    *)
Enabled(ev) ==
  CASE ev.op = "new"     -> FreshRegion(st, ev.r) /\ FreshHandle(st, ev.x)
    [] ev.op = "newn"    -> /\ FreshHandle(st, ev.x) /\ Len(ev.rs) \in 1..MaxRefs
                            /\ \A i \in 1..Len(ev.rs) : FreshRegion(st, ev.rs[i]) /\ \A j \in 1..(i - 1) : ev.rs[j] # ev.rs[i]
    [] ev.op = "clone"   -> ev.x \in Live(st.hd) /\ st.hd[ev.x].kind \in {"buffer", "array"} /\ FreshHandle(st, ev.y)
    [] ev.op = "slice"   -> ev.x \in Live(st.hd) /\ FreshHandle(st, ev.y) /\ CanSlice(st, ev.x, ev.o, ev.n)
    [] ev.op = "wrap"    -> ev.x \in Live(st.hd) /\ FreshHandle(st, ev.y) /\ CanWrap(st, ev.x)
    [] ev.op = "wrapn"   -> ev.x \in Live(st.hd) /\ ev.xn \in Live(st.hd) /\ FreshHandle(st, ev.y) /\ CanWrapN(st, ev.x, ev.xn)
    [] ev.op = "drop"    -> ev.x \in Live(st.hd)
    [] ev.op = "drop_many" -> \A i \in 1..Len(ev.xs) : ev.xs[i] \in Live(st.hd)
    [] ev.op \in {"into_mutable", "into_vec", "xor", "shrink"} -> ev.x \in Live(st.hd) /\ st.hd[ev.x].kind = "buffer"
    [] ev.op \in ArrayOps \cup {"try_unary_mut_err"} ->
         /\ ev.x \in Live(st.hd) /\ st.hd[ev.x].kind = "array" /\ ~st.hd[ev.x].nested
         /\ ((~ev.ok /\ NeedsNullCopy(st, ev.x)) => FreshRegion(st, ev.nr))
    [] ev.op = "claim"   -> ev.x \in Live(st.hd) /\ st.hd[ev.x].kind \in {"buffer", "array"} /\ ~st.hd[ev.x].nested
    [] ev.op = "export"  -> /\ ev.x \in Live(st.hd) /\ st.hd[ev.x].kind = "array" /\ CanExport(st, ev.x)
                            /\ FreshHandle(st, ev.e) /\ FreshRegion(st, ev.nr)
    [] ev.op = "import"  -> ev.e \in Live(st.hd) /\ CanImport(st, ev.e)
    [] ev.op = "stream_export" -> /\ ev.x \in Live(st.hd) /\ st.hd[ev.x].kind = "array" /\ CanStreamExport(st, ev.x)
                                  /\ FreshHandle(st, ev.s)
    [] ev.op = "stream_next"   -> /\ ev.s \in Live(st.hd) /\ st.hd[ev.s].kind \in {"stream", "drained"}
                                  /\ (ev.got => FreshHandle(st, ev.y) /\ FreshRegion(st, ev.nr))
    [] OTHER -> FALSE

(* in-place rules: what the call reported is allowed in the state before it  *)
RuleOK(ev) ==
  CASE ev.op = "into_mutable" -> /\ ev.ok = BufferInPlaceOK(st, ev.x)      \* documented both ways
                                 /\ (ev.same \/ EmptyHandle(ev.x))        \* Ok: same memory; Err: the same buffer back
    [] ev.op = "into_vec"     -> (ev.ok => BufferInPlaceOK(st, ev.x)) /\ (ev.same \/ EmptyHandle(ev.x))
    [] ev.op \in ArrayOps     -> (ev.ok => ArrayInPlaceOK(st, ev.x)) /\ (~ev.ok => ev.same)
    [] ev.op = "try_unary_mut_err" -> (ev.ok => ArrayInPlaceOK(st, ev.x))
    [] ev.op = "xor"          -> (ev.same /\ ~EmptyHandle(ev.x)) => BufferInPlaceOK(st, ev.x)
    [] ev.op = "shrink"       -> ev.size = ShrinkToFit(st, ev.x).rg[st.hd[ev.x].refs[1]].size    \* capacity afterwards
    [] ev.op = "import"       -> ev.srel = 1          \* the schema struct is released exactly once when dropped
    [] ev.op = "stream_next"  -> /\ ev.got = CanStreamNext(st, ev.s)      \* one batch, then end of stream
                                 /\ ev.sc = 0                             \* the stream itself is not released by get_next
    [] ev.op = "drop"         -> ev.sc = (IF st.hd[ev.x].kind \in {"stream", "drained"} THEN 1 ELSE 0 - 1)
    [] OTHER -> TRUE

(* observations after the call                                               *)
Opaque == {"export", "stream", "drained"}       \* C structs: nothing to look at but their release counts
(* nested arrays share their children through Arc<dyn Array>, so buffer     *)
(* strong counts say nothing about them: they are judged by what they show  *)
(* (`nviews`, the logical rows) and by the release counters of their regions *)
RefCounts(S, h) == IF h.kind \in Opaque \/ h.nested THEN <<>> ELSE [i \in 1..Len(h.refs) |-> RC(S, h.refs[i])]
Shows(S, h)     == IF h.kind \in Opaque \/ h.nested THEN <<>> ELSE View(S.rg, h)
ShowsRows(S, h) == IF h.kind \notin Opaque /\ h.nested THEN View(S.rg, h) ELSE <<>>
ShowsValid(S, h) == IF h.kind \in Opaque THEN <<>> ELSE VView(S.rg, h)

ObsOK(ev, S) ==
  /\ J({ev.hs[i] : i \in 1..Len(ev.hs)} = Live(S.hd) /\ Len(ev.hs) = Cardinality(Live(S.hd)), <<ev.op, "live handles">>)
  /\ J(\A i \in 1..Len(ev.hs) : ev.hs[i] \in Live(S.hd) => ev.rcs[i] = RefCounts(S, S.hd[ev.hs[i]]), <<ev.op, "strong counts">>)
  /\ J(\A i \in 1..Len(ev.hs) : ev.hs[i] \in Live(S.hd) => ev.views[i] = Shows(S, S.hd[ev.hs[i]]), <<ev.op, "visible values">>)
  /\ J(\A i \in 1..Len(ev.hs) : ev.hs[i] \in Live(S.hd) => ev.vviews[i] = ShowsValid(S, S.hd[ev.hs[i]]), <<ev.op, "visible validity">>)
  /\ J(\A i \in 1..Len(ev.hs) : ev.hs[i] \in Live(S.hd) => ev.nviews[i] = ShowsRows(S, S.hd[ev.hs[i]]), <<ev.op, "visible rows">>)
  /\ J(\A j \in 1..Len(ev.relr) : ev.relc[j] = S.rg[ev.relr[j]].released, <<ev.op, "owner release count">>)
  /\ J(\A j \in 1..Len(ev.strel) : ev.strel[j] <= 1, <<ev.op, "stream released twice">>)

Init == l = 1 /\ st = Empty

Next ==
  /\ l <= Len(Rec)
  /\ l' = l + 1
  /\ LET ev == Rec[l] IN
     IF ev.op = "reset"
     THEN st' = Empty
     ELSE IF ev.op = "end"         \* every handle was dropped: nothing is left, all owners released, pool empty
     THEN /\ J(Live(st.hd) = {} /\ ev.hs = <<>>, "end: live handles")
          /\ J(\A j \in 1..Len(ev.relr) : ev.relc[j] = 1, "end: an owner was not released exactly once")
          /\ J(\A j \in 1..Len(ev.strel) : ev.strel[j] = 1, "end: a stream was not released exactly once")
          /\ J(\A r \in Created(st) : st.rg[r].released = 1, "end: region not released")
          /\ J(ev.pool = 0 /\ st.pool = 0, <<"end: pool not empty", ev.pool, st.pool>>)
          /\ UNCHANGED st
     ELSE IF ~Enabled(ev)
     THEN J(FALSE, <<ev.op, "not offered">>) /\ UNCHANGED st
     ELSE LET S == After(ev) IN
          /\ J(RuleOK(ev), <<ev.op, "in-place / release rule">>)
          /\ ObsOK(ev, S)
          /\ J(ev.pool = S.pool, <<ev.op, "pool", ev.pool, S.pool>>)      \* O4, on every path
          /\ st' = S

Spec == Init /\ [][Next]_<<l, st>>

O1_NoDangling  == NoDangling(st)
O2_Immutable   == Immutable(st)
O3_ExactlyOnce == ExactlyOnce(st)
O4_PoolExact   == PoolExact(st)
O5_FfiMirror   == FfiMirror(st)
=============================================================================
