SPECIFICATION Spec
POSTCONDITION AllConsumed
CHECK_DEADLOCK FALSE
