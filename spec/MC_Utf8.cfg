SPECIFICATION Spec
CONSTANT MaxLen = 4
INVARIANTS TableAgreesWithDecoding ConcatLaw BoundaryLaw RangeLaw Basics
CHECK_DEADLOCK FALSE
