SPECIFICATION Spec
CONSTANTS
  ManyLimit = 12
  Stride = 10
INVARIANTS Emit
CHECK_DEADLOCK FALSE
