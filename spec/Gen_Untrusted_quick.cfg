SPECIFICATION Spec
CONSTANTS
  ManyLimit = 12
  Stride = 4
INVARIANTS Emit
CHECK_DEADLOCK FALSE
