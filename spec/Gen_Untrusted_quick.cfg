SPECIFICATION Spec
CONSTANTS
  ManyLimit = 12
  Stride = 8
INVARIANTS Emit
CHECK_DEADLOCK FALSE
