SPECIFICATION Spec
CONSTANTS
  ManyLimit = 12
  Stride = 6
INVARIANTS Emit
CHECK_DEADLOCK FALSE
