------------------------------ MODULE Untrusted ------------------------------
(***************************************************************************)
(* C08: the outcome protocol of a safe reader on untrusted bytes, and the  *)
(* structural corruption planner.                                          *)
(*                                                                         *)
(* A *session* is (format, reader api, base file, corruption plan): the    *)
(* plan is applied to the bytes of a valid base file and the reader is run *)
(* over the result to the end (or its first error).  The outcome is one of *)
(*     ok      the reader finished; every batch it returned is data        *)
(*     err     the reader reported an error (batches returned before it    *)
(*             are data too)                                               *)
(*     panic   a panic escaped the reader                                  *)
(*     hang    no result within the time bound, or an unbounded stream of  *)
(*             batches from a finite input                                 *)
(*     alloc   the reader requested memory unrelated to the input size     *)
(*     crash   the process died (abort, stack overflow, signal)            *)
(* Property: the outcome is in SafeOutcomes = {ok, err} and every batch    *)
(* that was returned is well formed (ArrowLayout!BatchWellFormed, judged   *)
(* in Trace_Untrusted) and agrees with the schema the reader declared.     *)
(*                                                                         *)
(* Files are modelled structurally: a *shape* is the sequence of regions   *)
(* of a file, each with a kind, the frame (`g`) it belongs to, its width   *)
(* `w` in bytes and (`e`) the index of the region that holds the length of *)
(* its enclosing container (0 = none).  `PlansFor` enumerates, for every   *)
(* region, the corruptions that are individually plausible for its kind;   *)
(* TLC prints them (Gen_Untrusted) and the harness applies each one to the *)
(* real file the shape was taken from.  `PlanAt` / `PlanNewLen` fix what   *)
(* applying a plan means in terms of the region geometry; the trace        *)
(* specification checks the harness against them, MC_Untrusted checks them *)
(* against a cell-level model of the edit (`Apply`).                       *)
(***************************************************************************)
EXTENDS Naturals, Integers, Sequences, FiniteSets

RegionKinds == {"magic", "len4", "len8", "zigzag", "uvarint", "meta", "body", "line", "enc"}
FixedLenKinds == {"len4", "len8"}
VarLenKinds == {"zigzag", "uvarint"}
LenKinds == FixedLenKinds \cup VarLenKinds

Outcomes == {"ok", "err", "panic", "hang", "alloc", "crash"}
SafeOutcomes == {"ok", "err"}

(***************************************************************************)
(* Plans.  A plan is a record                                              *)
(*   [op, arg, sel, d, fix, r, donor]                                      *)
(* r = 1-based region index; donor = 1-based index of the donor shape in   *)
(* the list of shapes (0 = none).                                          *)
(***************************************************************************)
FlipArgs == {"lo", "hi"}                               \* lowest / highest bit
SetArgs == {"0", "255", "127", "128"}
Inflations == {"x2", "p1", "i31", "u32", "neg", "zero"} \* value * 2, + 1, 2^31-1, 2^32-1, -1 (all ones), 0
Deltas == {-1, 0, 1}
(* kind "enc": one of the first bytes of an uncompressed page body (the      *)
(* header / length block of a value encoding), read as a one-byte varint,    *)
(* unsigned ("uv") or zig-zag ("zz"), and moved to value + 1, + 5, * 2, the  *)
(* length of the page body, that length - 1 (re-encoded in place; the        *)
(* harness skips a plan whose result does not fit the byte or equals it)     *)
BumpArgs == {"p1", "p5", "x2", "len", "lenm1"}
BumpSels == {"uv", "zz"}

P(op, arg, sel, d, fix, r, donor) == [op |-> op, arg |-> arg, sel |-> sel, d |-> d, fix |-> fix, r |-> r, donor |-> donor]

FirstOfFrame(S, r) == r = 1 \/ S[r - 1].g # S[r].g

(* the plans for region r of shape S; Donors = indices of shapes of the      *)
(* same format that have a region of the same kind                           *)
PlansFor(S, r, Donors) ==
  LET k == S[r].k
      w == S[r].w
      sels == IF w = 1 THEN {"first"} ELSE IF w = 2 THEN {"first", "last"} ELSE {"first", "mid", "last"}
  IN IF k = "enc" THEN
          {P("bump", a, s, 0, FALSE, r, 0) : a \in BumpArgs, s \in BumpSels}
     \cup {P("flip", "hi", "first", 0, FALSE, r, 0)}
     ELSE
        {P("flip", a, s, 0, FALSE, r, 0) : a \in FlipArgs, s \in sels \ {"mid"}}
   \cup {P("set", a, s, 0, FALSE, r, 0) : a \in SetArgs, s \in sels}
   \cup {P("trunc", "", s, d, FALSE, r, 0) : s \in {"lo", "hi"}, d \in Deltas}
   \cup (IF k \in LenKinds THEN {P("inflate", a, "", 0, FALSE, r, 0) : a \in Inflations} ELSE {})
   \cup (IF k \in VarLenKinds /\ S[r].e # 0 THEN {P("inflate", a, "", 0, TRUE, r, 0) : a \in Inflations} ELSE {})
   \cup {P("dup", "", "", 0, FALSE, r, 0), P("drop", "", "", 0, FALSE, r, 0)}
   \cup (IF FirstOfFrame(S, r) THEN {P("dupframe", "", "", 0, FALSE, r, 0), P("dropframe", "", "", 0, FALSE, r, 0)} ELSE {})
   \cup {P("splice", "", "", 0, FALSE, r, dn) : dn \in Donors}
   \cup (IF FirstOfFrame(S, r) THEN {P("spliceframe", "", "", 0, FALSE, r, dn) : dn \in Donors} ELSE {})

(***************************************************************************)
(* Geometry of a plan.  lo/hi: extent of the region, flo/fhi: extent of    *)
(* its frame, n: length of the base file, pos: absolute position of a      *)
(* harness-generated (sel = "abs") plan, neww: width of the replacement.   *)
(***************************************************************************)
Clamp(x, a, b) == IF x < a THEN a ELSE IF x > b THEN b ELSE x
Min2(a, b) == IF a < b THEN a ELSE b

(* first byte the plan addresses                                             *)
PlanAt(op, sel, d, lo, hi, flo, fhi, n, pos) ==
  CASE op \in {"flip", "set"} ->
         (CASE sel = "first" -> lo [] sel = "last" -> hi - 1 [] sel = "mid" -> lo + (hi - lo) \div 2 [] OTHER -> pos)
    [] op = "trunc" ->
         (CASE sel = "lo" -> Clamp(lo + d, 0, n) [] sel = "hi" -> Clamp(hi + d, 0, n) [] OTHER -> Clamp(pos, 0, n))
    [] op \in {"inflate", "dup", "drop", "splice", "bump"} -> lo
    [] op \in {"dupframe", "dropframe", "spliceframe"} -> flo
    [] op = "xsplice" -> Min2(pos, n)
    [] OTHER -> 0

(* length of the file after the plan                                         *)
PlanNewLen(op, sel, d, lo, hi, flo, fhi, n, pos, neww) ==
  CASE op \in {"flip", "set", "none", "bump"} -> n
    [] op = "trunc" -> PlanAt(op, sel, d, lo, hi, flo, fhi, n, pos)
    [] op = "inflate" -> n - (hi - lo) + neww
    [] op = "dup" -> n + (hi - lo)
    [] op = "dupframe" -> n + (fhi - flo)
    [] op = "drop" -> n - (hi - lo)
    [] op = "dropframe" -> n - (fhi - flo)
    [] op = "splice" -> n - (hi - lo) + neww
    [] op = "spliceframe" -> n - (fhi - flo) + neww
    [] op = "xsplice" -> Min2(pos, n) + neww
    [] OTHER -> -1

(* no byte before this position may differ from the base file                *)
PlanFirstTouched(op, sel, d, lo, hi, flo, fhi, n, pos) ==
  CASE op = "dup" -> hi
    [] op = "dupframe" -> fhi
    [] OTHER -> PlanAt(op, sel, d, lo, hi, flo, fhi, n, pos)

(* in-place plans: no byte at or after this position may differ (-1: none)   *)
PlanLastTouched(op, sel, d, lo, hi, flo, fhi, n, pos, k, fix) ==
  CASE op \in {"flip", "set", "bump"} -> PlanAt(op, sel, d, lo, hi, flo, fhi, n, pos) + 1
    [] op = "inflate" /\ k \in FixedLenKinds -> hi
    [] op = "none" -> 0
    [] OTHER -> -1

(* width of the replacement of an inflated length field                      *)
InflatedWidthOK(k, w, neww) ==
  IF k \in FixedLenKinds THEN neww = w ELSE neww >= 1 /\ neww <= 10

(***************************************************************************)
(* Cell-level model of the edits (used by MC_Untrusted): a file is the     *)
(* sequence of its cells <<region, index within the region>>; cells that   *)
(* a plan writes are <<0, 0>> ("new"), cells taken from the donor are      *)
(* <<-region, index>>.                                                     *)
(***************************************************************************)
RECURSIVE SumW(_, _)
SumW(S, r) == IF r = 0 THEN 0 ELSE S[r].w + SumW(S, r - 1)
RLo(S, r) == SumW(S, r - 1)
RHi(S, r) == SumW(S, r)
FileLen(S) == SumW(S, Len(S))

RECURSIVE CellsFrom(_, _, _)
CellsFrom(S, r, sign) == IF r > Len(S) THEN <<>> ELSE [i \in 1..S[r].w |-> <<sign * r, i>>] \o CellsFrom(S, r + 1, sign)
Cells(S) == CellsFrom(S, 1, 1)
DonorCells(S) == CellsFrom(S, 1, -1)

FrameLo(S, r) == RLo(S, CHOOSE a \in 1..r : S[a].g = S[r].g /\ \A b \in a..r : S[b].g = S[r].g /\ (a = 1 \/ S[a - 1].g # S[r].g))
FrameHi(S, r) == RHi(S, CHOOSE a \in r..Len(S) : S[a].g = S[r].g /\ \A b \in r..a : S[b].g = S[r].g /\ (a = Len(S) \/ S[a + 1].g # S[r].g))

New(w) == [i \in 1..w |-> <<0, 0>>]

(* the ordinal-matched region of the donor: the j-th region of kind k        *)
KindIdx(S, k) == {i \in 1..Len(S) : S[i].k = k}
RECURSIVE NthOf(_, _)
NthOf(Is, j) == LET m == CHOOSE x \in Is : \A y \in Is : x <= y IN IF j = 0 THEN m ELSE NthOf(Is \ {m}, j - 1)
DonorRegion(S, r, D) ==
  LET k == S[r].k
      ord == Cardinality({i \in KindIdx(S, k) : i < r})
      cand == KindIdx(D, k)
  IN NthOf(cand, ord % Cardinality(cand))

(* Apply(S, D, p, neww): the cells after plan p (D = donor shape or <<>>)    *)
Apply(S, D, p, neww) ==
  LET c == Cells(S)
      n == Len(c)
      lo == RLo(S, p.r)    hi == RHi(S, p.r)
      flo == FrameLo(S, p.r) fhi == FrameHi(S, p.r)
      at == PlanAt(p.op, p.sel, p.d, lo, hi, flo, fhi, n, 0)
      Sub(a, b) == SubSeq(c, a + 1, b)                 \* cells [a, b)
  IN CASE p.op \in {"flip", "set", "bump"} -> Sub(0, at) \o New(1) \o Sub(at + 1, n)
       [] p.op = "trunc" -> Sub(0, at)
       [] p.op = "inflate" -> Sub(0, lo) \o New(neww) \o Sub(hi, n)
       [] p.op = "dup" -> Sub(0, hi) \o Sub(lo, hi) \o Sub(hi, n)
       [] p.op = "dupframe" -> Sub(0, fhi) \o Sub(flo, fhi) \o Sub(fhi, n)
       [] p.op = "drop" -> Sub(0, lo) \o Sub(hi, n)
       [] p.op = "dropframe" -> Sub(0, flo) \o Sub(fhi, n)
       [] p.op = "splice" ->
            LET dr == DonorRegion(S, p.r, D) IN
            Sub(0, lo) \o SubSeq(DonorCells(D), RLo(D, dr) + 1, RHi(D, dr)) \o Sub(hi, n)
       [] OTHER -> c

(* the cells of the regions other than r, in order (what a single-region     *)
(* corruption must leave alone)                                              *)
RECURSIVE Others(_, _)
Others(c, r) == IF c = <<>> THEN <<>>
                ELSE (IF Head(c)[1] = r \/ Head(c)[1] <= 0 THEN <<>> ELSE <<Head(c)>>) \o Others(Tail(c), r)
=============================================================================
