SPECIFICATION Spec
CONSTANTS
  MaxBits = 11
  MaxArg = 3
INVARIANTS B_Refines B_ByteLen B_PadZero
CHECK_DEADLOCK FALSE
