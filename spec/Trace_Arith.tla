----------------------------- MODULE Trace_Arith -----------------------------
(***************************************************************************)
(* impl -> spec (C12): every recorded call of an arithmetic / aggregate /  *)
(* boolean kernel must return what Arith.tla defines.                      *)
(*                                                                         *)
(* Event kinds (field k):                                                  *)
(*  nat   ArrowNativeTypeOp::{add,..}_{checked,wrapping} on value pairs    *)
(*  bin   arrow_arith::numeric::{add,..,rem,add_wrapping,..}(lhs, rhs),    *)
(*        array or scalar (Datum) operands                                 *)
(*  un    arrow_arith::numeric::{neg, neg_wrapping}                        *)
(*  agg   arrow_arith::aggregate::*, arrow_arith::aggregate::bit_*         *)
(*  bool  arrow_arith::boolean::*                                          *)
(*  arity arrow_arith::arity::{unary,binary,try_unary,try_binary}          *)
(*  mfp   arrow_arith::arithmetic::multiply_fixed_point{,_checked}         *)
(*  bitw  arrow_arith::bitwise::* (8- and 16-bit integers)                 *)
(*                                                                         *)
(* Values: TLC integers for 8/16-bit integer types, wires (BigNum) above,  *)
(* sequences of wires for the multi-field interval types; validity as 0/1  *)
(* sequences; null rows carry the filler 0 / <<0>>.  A type is the record  *)
(* [f, w, sg, p, s, u, tz].                                                *)
(***************************************************************************)
EXTENDS Arith, TraceBase

VARIABLE l

T(f, w, sg, p, s, u, tz) == [f |-> f, w |-> w, sg |-> sg, p |-> p, s |-> s, u |-> u, tz |-> tz]
Small(t) == t.f = "int" /\ t.w <= 16
B01(b) == IF b THEN 1 ELSE 0

(* ------------------------------ nat events ------------------------------- *)
NatOK(ev) ==
  LET n == Len(ev.a) IN
  /\ Len(ev.b) = n /\ Len(ev.err) = n /\ Len(ev.out) = n
  /\ \A i \in 1..n :
       IF ev.w <= 16
       THEN LET e == IRowErr(ev.op, ev.w, ev.sg, ev.a[i], ev.b[i]) IN
            /\ ev.err[i] = B01(e)
            /\ (IF e THEN ev.out[i] = 0 ELSE IRowVal(ev.op, ev.w, ev.sg, ev.a[i], ev.b[i], ev.out[i]))
       ELSE LET a == FromWire(ev.a[i])
                b == FromWire(ev.b[i])
                e == BRowErr(ev.op, ev.w, ev.sg, a, b)
            IN /\ ev.err[i] = B01(e)
               /\ IsWire(ev.out[i])
               /\ (IF e THEN ev.out[i] = <<0>>
                   ELSE BRowVal(ev.op, ev.w, ev.sg, a, b, FromWire(ev.out[i]), FromWire(ev.wit[i])))

(* ---------------------- which semantics for which types ------------------ *)
IvWidths(f) == IF f = "dt" THEN <<32, 32>> ELSE <<32, 32, 64>>
PlusMinus == AddOps \cup SubOps

(* [kind, w, sg, ot]: kind "none" = not a combination this specification     *)
(* covers (unsupported by the kernel, or calendar / float dependent)         *)
None == [kind |-> "none", w |-> 0, sg |-> 0, ot |-> T("", 0, 0, 0, 0, "", "")]
Rule(op, lt, rt) ==
  CASE lt.f = "int" /\ rt.f = "int" /\ lt.w = rt.w /\ lt.sg = rt.sg ->
         [kind |-> "int", w |-> lt.w, sg |-> lt.sg, ot |-> lt]
    [] lt.f = "flt" /\ rt.f = "flt" /\ lt.w = rt.w ->
         [kind |-> "flt", w |-> lt.w, sg |-> 1, ot |-> lt]
    [] lt.f = "dec" /\ rt.f = "dec" /\ lt.w = rt.w ->
         LET r == DecResType(op, lt.w, lt.p, lt.s, rt.p, rt.s) IN
         [kind |-> "dec", w |-> lt.w, sg |-> 1, ot |-> T("dec", lt.w, 1, r.p, r.s, "", "")]
    [] lt.f = "ts" /\ rt.f = "dur" /\ lt.u = rt.u /\ op \in PlusMinus ->
         [kind |-> "chk", w |-> 64, sg |-> 1, ot |-> lt]
    [] lt.f = "dur" /\ rt.f = "ts" /\ lt.u = rt.u /\ op \in AddOps ->
         [kind |-> "chk", w |-> 64, sg |-> 1, ot |-> rt]
    [] lt.f = "ts" /\ rt.f = "ts" /\ lt.u = rt.u /\ op \in SubOps ->
         [kind |-> "chk", w |-> 64, sg |-> 1, ot |-> T("dur", 64, 1, 0, 0, lt.u, "")]
    [] lt.f = "dur" /\ rt.f = "dur" /\ lt.u = rt.u /\ op \in PlusMinus ->
         [kind |-> "chk", w |-> 64, sg |-> 1, ot |-> lt]
    [] lt.f = "date32" /\ rt.f = "date32" /\ op \in SubOps ->
         [kind |-> "d32diff", w |-> 64, sg |-> 1, ot |-> T("dur", 64, 1, 0, 0, "s", "")]
    [] lt.f = "date64" /\ rt.f = "date64" /\ op \in SubOps ->
         [kind |-> "chk", w |-> 64, sg |-> 1, ot |-> T("dur", 64, 1, 0, 0, "ms", "")]
    [] lt.f = "ym" /\ rt.f = "ym" /\ op \in PlusMinus ->
         [kind |-> "chk", w |-> 32, sg |-> 1, ot |-> lt]
    [] lt.f = "ym" /\ rt.f = "int" /\ rt.w = 64 /\ rt.sg = 1 /\ op = "mul" ->
         [kind |-> "mulfit", w |-> 32, sg |-> 1, ot |-> lt]
    [] lt.f = "int" /\ lt.w = 64 /\ lt.sg = 1 /\ rt.f = "ym" /\ op = "mul" ->
         [kind |-> "mulfit", w |-> 32, sg |-> 1, ot |-> rt]
    [] lt.f \in {"dt", "mdn"} /\ rt.f = lt.f /\ op \in PlusMinus ->
         [kind |-> "iv", w |-> 0, sg |-> 1, ot |-> lt]
    [] lt.f \in {"dt", "mdn"} /\ rt.f = "int" /\ rt.w = 64 /\ rt.sg = 1 /\ op = "mul" ->
         [kind |-> "ivmul", w |-> 0, sg |-> 1, ot |-> lt]
    [] lt.f = "int" /\ lt.w = 64 /\ lt.sg = 1 /\ rt.f \in {"dt", "mdn"} /\ op = "mul" ->
         [kind |-> "ivmulr", w |-> 0, sg |-> 1, ot |-> rt]
    [] lt.f = "date32" /\ rt.f = "dt" /\ op \in PlusMinus ->
         [kind |-> "d32dt", w |-> 32, sg |-> 1, ot |-> lt]
    [] lt.f = "date64" /\ rt.f = "dt" /\ op \in PlusMinus ->
         [kind |-> "d64dt", w |-> 64, sg |-> 1, ot |-> lt]
    [] lt.f = "ts" /\ rt.f = "dt" /\ op \in PlusMinus ->
         [kind |-> "tsdt", w |-> 64, sg |-> 1, ot |-> lt]
    [] OTHER -> None

(* ------------------------------ bin events ------------------------------- *)
Sgn(op) == IF op \in AddOps THEN 1 ELSE -1
IvBig(x) == [j \in 1..Len(x) |-> FromWire(x[j])]
UnitExp(u) == CASE u = "s" -> 0 [] u = "ms" -> 3 [] u = "us" -> 6 [] u = "ns" -> 9
At(col, isScalar, i) == IF isScalar THEN col[1] ELSE col[i]
WitAt(ev, i) == IF i <= Len(ev.wit) THEN FromWire(ev.wit[i]) ELSE Zero

(* does row i (both inputs valid) report an error / is out[i] its value       *)
BinRowErr(ev, r, i) ==
  LET a == At(ev.a, ev.as, i)
      b == At(ev.b, ev.bs, i)
      o == DecOp(ev.op)             \* temporal "wrapping" forms are checked as well
  IN CASE r.kind = "int" -> IF Small(ev.lt) THEN IRowErr(ev.op, r.w, r.sg, a, b)
                            ELSE BRowErr(ev.op, r.w, r.sg, FromWire(a), FromWire(b))
       [] r.kind = "dec" -> DecRowErr(ev.op, r.w, ev.lt.s, ev.rt.s, FromWire(a), FromWire(b))
       [] r.kind = "chk" -> BRowErr(o, r.w, 1, FromWire(a), FromWire(b))
       [] r.kind = "d32diff" -> FALSE
       [] r.kind = "mulfit" -> ~BIn(32, 1, Mul(FromWire(a), FromWire(b)))
       [] r.kind = "iv" -> \E j \in 1..Len(a) : BRowErr(o, IvWidths(ev.lt.f)[j], 1, FromWire(a[j]), FromWire(b[j]))
       [] r.kind = "ivmul" -> \E j \in 1..Len(a) : ~BIn(IvWidths(ev.lt.f)[j], 1, Mul(FromWire(a[j]), FromWire(b)))
       [] r.kind = "ivmulr" -> \E j \in 1..Len(b) : ~BIn(IvWidths(ev.rt.f)[j], 1, Mul(FromWire(b[j]), FromWire(a)))
       [] r.kind = "d32dt" -> Date32Shift(FromWire(a), Sgn(ev.op), IvBig(b)).err
       [] r.kind = "d64dt" -> Date64Shift(FromWire(a), Sgn(ev.op), IvBig(b)).err
       [] r.kind = "tsdt" -> TsShift(FromWire(a), UnitExp(ev.lt.u), Sgn(ev.op), IvBig(b)).err
       [] r.kind = "flt" -> FALSE

BinRowVal(ev, r, i) ==
  LET a == At(ev.a, ev.as, i)
      b == At(ev.b, ev.bs, i)
      o == DecOp(ev.op)
      out == ev.out[i]
  IN CASE r.kind = "int" -> IF Small(ev.lt) THEN IRowVal(ev.op, r.w, r.sg, a, b, out)
                            ELSE IsWire(out) /\ BRowVal(ev.op, r.w, r.sg, FromWire(a), FromWire(b), FromWire(out), WitAt(ev, i))
       [] r.kind = "dec" -> IsWire(out) /\ DecRowVal(ev.op, r.w, ev.lt.s, ev.rt.s, FromWire(a), FromWire(b), FromWire(out), WitAt(ev, i))
       [] r.kind = "chk" -> out = ToWire(BExact(o, FromWire(a), FromWire(b)))
       [] r.kind = "d32diff" -> out = ToWire(Mul(Sub(FromWire(a), FromWire(b)), FromInt(86400)))
       [] r.kind = "mulfit" -> out = ToWire(Mul(FromWire(a), FromWire(b)))
       [] r.kind = "iv" -> out = [j \in 1..Len(a) |-> ToWire(BExact(o, FromWire(a[j]), FromWire(b[j])))]
       [] r.kind = "ivmul" -> out = [j \in 1..Len(a) |-> ToWire(Mul(FromWire(a[j]), FromWire(b)))]
       [] r.kind = "ivmulr" -> out = [j \in 1..Len(b) |-> ToWire(Mul(FromWire(b[j]), FromWire(a)))]
       [] r.kind = "d32dt" -> out = ToWire(Date32Shift(FromWire(a), Sgn(ev.op), IvBig(b)).v)
       [] r.kind = "d64dt" -> out = ToWire(Date64Shift(FromWire(a), Sgn(ev.op), IvBig(b)).v)
       [] r.kind = "tsdt" -> out = ToWire(TsShift(FromWire(a), UnitExp(ev.lt.u), Sgn(ev.op), IvBig(b)).v)
       [] r.kind = "flt" -> TRUE          \* IEEE-754 results are not modelled (DESIGN.md 4)

(* the filler logged under a null row                                        *)
Filler(ev, r) ==
  CASE r.kind = "int" /\ Small(ev.lt) -> 0
    [] r.kind \in {"iv", "ivmul"} -> [j \in 1..Len(IvWidths(ev.lt.f)) |-> <<0>>]
    [] r.kind = "ivmulr" -> [j \in 1..Len(IvWidths(ev.rt.f)) |-> <<0>>]
    [] r.kind = "flt" -> "~"
    [] OTHER -> <<0>>

BinLen(ev) == IF ev.as = ev.bs THEN Len(ev.a) ELSE IF ev.as THEN Len(ev.b) ELSE Len(ev.a)
BinValid(ev, i) == At(ev.av, ev.as, i) = 1 /\ At(ev.bv, ev.bs, i) = 1

(* the decimal result type rule gives no valid type: the kernel must refuse   *)
TypeErr(ev, r) ==
  r.kind = "dec" /\ DecResType(ev.op, ev.lt.w, ev.lt.p, ev.lt.s, ev.rt.p, ev.rt.s).kind = "err"
TypeFree(ev, r) ==
  r.kind = "dec" /\ DecResType(ev.op, ev.lt.w, ev.lt.p, ev.lt.s, ev.rt.p, ev.rt.s).kind = "free"

BinExpectErr(ev, r) ==
  \/ TypeErr(ev, r)
  \/ (ev.as = ev.bs /\ Len(ev.a) # Len(ev.b))
  \/ \E i \in 1..BinLen(ev) : BinValid(ev, i) /\ BinRowErr(ev, r, i)

BinOK(ev) ==
  LET r == Rule(ev.op, ev.lt, ev.rt)
      n == BinLen(ev)
  IN IF r.kind = "none" THEN TRUE            \* not covered: not judged
     ELSE IF TypeFree(ev, r) THEN TRUE
     ELSE /\ ev.ecls # "panic"
          /\ IF BinExpectErr(ev, r) THEN ev.err
             ELSE /\ ~ev.err
                  /\ ev.ot = r.ot
                  /\ Len(ev.out) = n /\ Len(ev.ov) = n
                  /\ \A i \in 1..n :
                       IF BinValid(ev, i) THEN ev.ov[i] = 1 /\ BinRowVal(ev, r, i)
                       ELSE ev.ov[i] = 0 /\ ev.out[i] = Filler(ev, r)

(* a supported combination must not be refused as unsupported                 *)
BinSupported(ev) ==
  LET r == Rule(ev.op, ev.lt, ev.rt) IN
  (r.kind # "none" /\ ~TypeErr(ev, r) /\ ~TypeFree(ev, r)) => ev.ecls # "invalid"

(* Known findings.  The kernel rescales decimal operands with a checked       *)
(* multiplication in the native width before add / sub / div / rem: it        *)
(* reports an overflow although the exact result is representable             *)
(* (DESIGN.md 5.2).  Identified by: decimal family, the specification expects *)
(* success, the kernel reports an error, and some valid row has an            *)
(* intermediate (or the power of ten itself) that does not fit.               *)
BinKF(ev) ==
  LET r == Rule(ev.op, ev.lt, ev.rt)
      o == DecOp(ev.op)
  IN IF r.kind # "dec" \/ TypeErr(ev, r) \/ TypeFree(ev, r) THEN ""
     (* (the former finding C12-decimal-rem-multiplier-wraps - rem computed the power of   *)
     (*  ten with pow_wrapping - is fixed in /repo: known_findings.txt `fixed:`; a wrapped  *)
     (*  remainder is a plain REJECT again)                                                 *)
     ELSE IF ~ev.err \/ BinExpectErr(ev, r) THEN ""
     ELSE IF o \in {"add", "sub", "div", "rem"} /\ ev.ecls = "overflow" /\
             (\/ DecMultiplierOverflow(ev.op, r.w, ev.lt.s, ev.rt.s)
              \/ \E i \in 1..BinLen(ev) : BinValid(ev, i) /\
                   DecIntermediateOverflow(ev.op, r.w, ev.lt.s, ev.rt.s,
                                           FromWire(At(ev.a, ev.as, i)), FromWire(At(ev.b, ev.bs, i))))
          THEN "C12-decimal-rescale-overflow"
     ELSE IF o = "rem" /\ ev.ecls = "overflow" /\
             (\E i \in 1..BinLen(ev) : BinValid(ev, i) /\
                DecA(ev.op, r.w, ev.lt.s, ev.rt.s, FromWire(At(ev.a, ev.as, i))) = BMin(r.w, 1) /\
                DecB(ev.op, r.w, ev.lt.s, ev.rt.s, FromWire(At(ev.b, ev.bs, i))) = MinusOne)
          THEN "C12-decimal-rem-min-by-minus-one"
     ELSE ""

(* ------------------------------- un events ------------------------------- *)
UnRule(op, lt) ==
  CASE lt.f = "int" /\ (lt.sg = 1 \/ op = "neg_w") -> [kind |-> "int", w |-> lt.w, sg |-> lt.sg]
    [] lt.f = "dec" -> [kind |-> "chk", w |-> lt.w, sg |-> 1]
    [] lt.f = "dur" -> [kind |-> "chk", w |-> 64, sg |-> 1]
    [] lt.f = "ym"  -> [kind |-> "chk", w |-> 32, sg |-> 1]
    [] lt.f \in {"dt", "mdn"} -> [kind |-> "iv", w |-> 0, sg |-> 1]
    [] lt.f = "flt" -> [kind |-> "flt", w |-> lt.w, sg |-> 1]
    [] OTHER -> [kind |-> "none", w |-> 0, sg |-> 0]

UnRowErr(ev, r, i) ==
  CASE r.kind = "int" -> IF Small(ev.lt) THEN IRowErr(ev.op, r.w, r.sg, ev.a[i], 0)
                         ELSE BRowErr(ev.op, r.w, r.sg, FromWire(ev.a[i]), Zero)
    [] r.kind = "chk" -> BRowErr("neg", r.w, 1, FromWire(ev.a[i]), Zero)
    [] r.kind = "iv" -> \E j \in 1..Len(ev.a[i]) : BRowErr("neg", IvWidths(ev.lt.f)[j], 1, FromWire(ev.a[i][j]), Zero)
    [] r.kind = "flt" -> FALSE
UnRowVal(ev, r, i) ==
  CASE r.kind = "int" -> IF Small(ev.lt) THEN IRowVal(ev.op, r.w, r.sg, ev.a[i], 0, ev.out[i])
                         ELSE IsWire(ev.out[i]) /\ BRowVal(ev.op, r.w, r.sg, FromWire(ev.a[i]), Zero, FromWire(ev.out[i]), Zero)
    [] r.kind = "chk" -> ev.out[i] = ToWire(Neg(FromWire(ev.a[i])))
    [] r.kind = "iv" -> ev.out[i] = [j \in 1..Len(ev.a[i]) |-> ToWire(Neg(FromWire(ev.a[i][j])))]
    [] r.kind = "flt" -> TRUE
UnFiller(ev, r) ==
  CASE r.kind = "int" /\ Small(ev.lt) -> 0
    [] r.kind = "iv" -> [j \in 1..Len(IvWidths(ev.lt.f)) |-> <<0>>]
    [] r.kind = "flt" -> "~"
    [] OTHER -> <<0>>
UnOK(ev) ==
  LET r == UnRule(ev.op, ev.lt)
      n == Len(ev.a)
  IN IF r.kind = "none" THEN TRUE
     ELSE /\ ev.ecls \notin {"panic", "invalid"}
          /\ IF \E i \in 1..n : ev.av[i] = 1 /\ UnRowErr(ev, r, i) THEN ev.err
             ELSE /\ ~ev.err /\ ev.ot = ev.lt
                  /\ Len(ev.out) = n /\ Len(ev.ov) = n
                  /\ \A i \in 1..n :
                       IF ev.av[i] = 1 THEN ev.ov[i] = 1 /\ UnRowVal(ev, r, i)
                       ELSE ev.ov[i] = 0 /\ ev.out[i] = UnFiller(ev, r)

(* ------------------------------- agg events ------------------------------ *)
(* integer-like aggregates: values are wires, width/signedness of the native  *)
(* type; out is <<v>> when the aggregate is Some(v), <<>> when None           *)
AggOK(ev) ==
  LET n == Len(ev.av)
      some == AnyValid(ev.av)
      vals == [i \in 1..n |-> FromWire(ev.a[i])]
      w == ev.lt.w
      sg == ev.lt.sg
  IN /\ ev.ecls # "panic"
     /\ CASE ev.op = "sum" ->
               /\ ~ev.err /\ ev.some = some
               /\ (some => Len(ev.out) = 1 /\ IsWire(ev.out[1]) /\
                           BWrapOK(w, sg, SumFrom(vals, ev.av, 1), FromWire(ev.out[1]), FromInt(ev.wit)))
          [] ev.op = "sum_checked" ->
               LET total == SumFrom(vals, ev.av, 1) IN
               IF ~BIn(w, sg, total) THEN ev.err
               ELSE IF PrefixOverflow(w, sg, vals, ev.av, 1, Zero)
                    THEN ev.err \/ (ev.some = some /\ ev.out = <<ToWire(total)>>)   \* order of summation is free
               ELSE ~ev.err /\ ev.some = some /\ (some => ev.out = <<ToWire(total)>>)
          [] ev.op = "product_checked" ->
               LET total == ProdFrom(vals, ev.av, 1) IN
               IF ~some THEN ~ev.err /\ ~ev.some
               ELSE IF ~BIn(w, sg, total) THEN ev.err
               ELSE IF PrefixProdOverflow(w, sg, vals, ev.av, 1, One)
                    THEN ev.err \/ (ev.some /\ ev.out = <<ToWire(total)>>)
               ELSE ~ev.err /\ ev.some /\ ev.out = <<ToWire(total)>>
          [] ev.op = "min" ->
               ~ev.err /\ ev.some = some /\ (some => Len(ev.out) = 1 /\ IsMinOf(vals, ev.av, FromWire(ev.out[1])))
          [] ev.op = "max" ->
               ~ev.err /\ ev.some = some /\ (some => Len(ev.out) = 1 /\ IsMaxOf(vals, ev.av, FromWire(ev.out[1])))
     /\ (~ev.some => ev.out = <<>>)

(* float min / max (a = totalOrder keys), bit folds (a = rows of 16-bit       *)
(* chunks), boolean folds (a = 0/1 values)                                    *)
Agg2OK(ev) ==
  LET n == Len(ev.av)
      some == AnyValid(ev.av)
  IN /\ ~ev.err /\ ev.ecls # "panic" /\ ev.some = some
     /\ (~some => ev.out = <<>>)
     /\ (some =>
          /\ Len(ev.out) = 1
          /\ CASE ev.op = "fmin" -> IsFloatMinOf(ev.a, ev.av, ev.out[1])
               [] ev.op = "fmax" -> IsFloatMaxOf(ev.a, ev.av, ev.out[1])
               [] ev.op \in {"bit_and", "bit_or", "bit_xor"} ->
                    LET f == CASE ev.op = "bit_and" -> "and" [] ev.op = "bit_or" -> "or" [] OTHER -> "xor"
                    IN ev.out[1] = BitFold(f, ev.a, ev.av, 1, BitIdentity(f, Len(ev.out[1])))
               [] ev.op \in {"bool_and", "min_boolean"} ->
                    ev.out[1] = B01(\A i \in 1..n : ev.av[i] = 1 => ev.a[i] = 1)
               [] ev.op \in {"bool_or", "max_boolean"} ->
                    ev.out[1] = B01(\E i \in 1..n : ev.av[i] = 1 /\ ev.a[i] = 1))

(* ------------------------------ bool events ------------------------------ *)
BoolOK(ev) ==
  LET n == Len(ev.a) IN
  /\ ev.ecls # "panic"
  /\ IF ev.op \in {"not", "is_null", "is_not_null"}
     THEN /\ ~ev.err /\ Len(ev.out) = n
          /\ \A i \in 1..n : ev.out[i] = (CASE ev.op = "not" -> Not3(ev.a[i])
                                            [] ev.op = "is_null" -> B01(ev.a[i] = 2)
                                            [] ev.op = "is_not_null" -> B01(ev.a[i] # 2))
     ELSE IF Len(ev.b) # n THEN ev.err
     ELSE /\ ~ev.err /\ Len(ev.out) = n
          /\ \A i \in 1..n : ev.out[i] = (CASE ev.op = "and_kleene" -> And3(ev.a[i], ev.b[i])
                                            [] ev.op = "or_kleene" -> Or3(ev.a[i], ev.b[i])
                                            [] ev.op = "and" -> AndN(ev.a[i], ev.b[i])
                                            [] ev.op = "or" -> OrN(ev.a[i], ev.b[i])
                                            [] ev.op = "and_not" -> AndNotN(ev.a[i], ev.b[i]))

(* ------------------------------ arity events ----------------------------- *)
(* the closure returns a[i] + b[i] (b = 0 for the unary forms) and fails on   *)
(* the rows marked in `fail`; `calls` = the rows it was invoked on (sorted).  *)
(* try_*: never invoked on a null row; an error iff a valid row is marked.    *)
ArityOK(ev) ==
  LET n == Len(ev.a)
      valid(i) == ev.av[i] = 1 /\ ev.bv[i] = 1
      fallible == ev.fn \in {"try_unary", "try_binary"}
      expErr == fallible /\ \E i \in 1..n : valid(i) /\ ev.fail[i] = 1
  IN /\ ev.ecls # "panic"
     /\ (fallible => \A j \in 1..Len(ev.calls) : ev.calls[j] \in 1..n /\ valid(ev.calls[j]))
     /\ IF expErr THEN ev.err
        ELSE /\ ~ev.err /\ Len(ev.out) = n /\ Len(ev.ov) = n
             /\ \A i \in 1..n :
                  IF valid(i) THEN /\ ev.ov[i] = 1 /\ ev.out[i] = ev.a[i] + ev.b[i]
                                   /\ \E j \in 1..Len(ev.calls) : ev.calls[j] = i
                  ELSE ev.ov[i] = 0 /\ ev.out[i] = 0

(* ------------------------------- mfp events ------------------------------ *)
(* arrow_arith::arithmetic::multiply_fixed_point{,_checked}                    *)
MfpOK(ev) ==
  LET n == Len(ev.a)
      t == FixedPointType(ev.lt.p, ev.lt.s, ev.rt.p, ev.rt.s, ev.req)
      valid(i) == ev.av[i] = 1 /\ ev.bv[i] = 1
      val(i) == FixedPointVal(FromWire(ev.a[i]), FromWire(ev.b[i]), ev.lt.s, ev.rt.s, ev.req)
      expErr == t.err \/ Len(ev.b) # n \/
                (ev.op = "checked" /\ \E i \in 1..n : valid(i) /\ ~BIn(128, 1, val(i)))
  IN /\ ev.ecls # "panic"
     /\ IF expErr THEN ev.err
        ELSE /\ ~ev.err /\ ev.ot.p = t.p /\ ev.ot.s = t.s
             /\ Len(ev.out) = n /\ Len(ev.ov) = n
             /\ \A i \in 1..n :
                  IF valid(i) THEN /\ ev.ov[i] = 1 /\ IsWire(ev.out[i])
                                   /\ IF ev.op = "checked" THEN ev.out[i] = ToWire(val(i))
                                      ELSE BWrapOK(128, 1, val(i), FromWire(ev.out[i]), FromWire(ev.wit[i]))
                  ELSE ev.ov[i] = 0 /\ ev.out[i] = <<0>>

(* ------------------------------ bitw events ------------------------------ *)
(* arrow_arith::bitwise::* on 8- and 16-bit integers (TLC integers)            *)
BitwOK(ev) ==
  LET n == Len(ev.a)
      valid(i) == ev.av[i] = 1 /\ ev.bv[i] = 1
  IN /\ ev.ecls # "panic"
     /\ IF Len(ev.b) # n THEN ev.err
        ELSE /\ ~ev.err /\ Len(ev.out) = n /\ Len(ev.ov) = n
             /\ \A i \in 1..n :
                  IF valid(i) THEN ev.ov[i] = 1 /\ ev.out[i] = IBitwise(ev.op, ev.w, ev.sg, ev.a[i], ev.b[i])
                  ELSE ev.ov[i] = 0 /\ ev.out[i] = 0

(* --------------------------------- driver -------------------------------- *)
Init == l = 1
Next ==
  /\ l <= Len(Rec)
  /\ l' = l + 1
  /\ LET ev == Rec[l] IN
     CASE ev.k = "nat"   -> Judge(NatOK(ev), l, ev.op)
       [] ev.k = "bin"   -> /\ JudgeKF(BinOK(ev), l, ev.op, BinKF(ev))
                            /\ Judge(BinSupported(ev), l, "refused")
       [] ev.k = "un"    -> Judge(UnOK(ev), l, ev.op)
       [] ev.k = "agg"   -> Judge(AggOK(ev), l, ev.op)
       [] ev.k = "agg2"  -> Judge(Agg2OK(ev), l, ev.op)
       [] ev.k = "bool"  -> Judge(BoolOK(ev), l, ev.op)
       [] ev.k = "arity" -> Judge(ArityOK(ev), l, ev.fn)
       [] ev.k = "mfp"   -> Judge(MfpOK(ev), l, "mfp")
       [] ev.k = "bitw"  -> Judge(BitwOK(ev), l, ev.op)
Spec == Init /\ [][Next]_l
=============================================================================
