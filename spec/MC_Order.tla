------------------------------ MODULE MC_Order ------------------------------
(***************************************************************************)
(* Exhaustive check of the order theorems of Order.tla over small key       *)
(* universes (one per type family, every one with a null): the comparator   *)
(* is a total preorder, antisymmetric up to equality of keys, the option    *)
(* combinations are mirrors, nulls sit where nulls_first asks at every       *)
(* depth; and the derived definitions (sort acceptance with limits, sorted  *)
(* values, rank, partition, comparison kernels) are consistent with it on   *)
(* every column of at most MaxCol rows.  A wrong definition in Order.tla    *)
(* (which is the oracle for the real kernels) fails here.                   *)
(***************************************************************************)
EXTENDS Order, TLC

CONSTANTS MaxCol

N == NullKey
I(x) == [k |-> "i", i |-> x]
SM(s, m) == [k |-> "sm", i |-> s, m |-> m]
S(b) == [k |-> "s", m |-> b]
L(c) == [k |-> "l", c |-> c]
R(c) == [k |-> "r", c |-> c]
Un(t, x) == [k |-> "u", i |-> t, c |-> <<x>>]

SeqsUpTo(X, n) == UNION {[1..k -> X] : k \in 0..n}

(* floats as one 16-bit limb (binary16): zero, least subnormal, one, inf, two NaNs *)
FloatMags == {0, 1, 15360, 31744, 32256, 32257}
SmallInts == {N, I(0), I(1)}
SmallStrs == {N, S(<<>>), S(<<1>>)}
InnerLists == {N, L(<<>>), L(<<N>>), L(<<I(0)>>)}
SmallRecs == {N, R(<<N>>), R(<<I(0)>>)}

Universe(u) ==
  CASE u = "int"    -> {N, I(-2147483647), I(-1), I(0), I(1), I(2147483647)}
    [] u = "float"  -> {N} \cup {SM(s, <<m>>) : s \in {0, 1}, m \in FloatMags}
    [] u = "wide"   -> {N, SM(1, <<1, 0>>), SM(1, <<0, 1>>), SM(0, <<0, 0>>), SM(0, <<0, 1>>),
                        SM(0, <<0, 65535>>), SM(0, <<1, 0>>)}
    [] u = "bytes"  -> {N, S(<<>>), S(<<0>>), S(<<0, 0>>), S(<<0, 255>>), S(<<1>>), S(<<255>>)}
    [] u = "list"   -> {N} \cup {L(c) : c \in SeqsUpTo(SmallInts, 2)}
    [] u = "struct" -> {N} \cup {R(<<x, y>>) : x \in SmallInts, y \in SmallStrs}
    [] u = "nest"   -> {N} \cup {L(c) : c \in SeqsUpTo(InnerLists, 2)}
    [] u = "lrec"   -> {N} \cup {L(c) : c \in SeqsUpTo(SmallRecs, 2)}
    [] u = "union"  -> {N, Un(0, I(0)), Un(0, I(1)), Un(1, S(<<>>)), Un(1, S(<<1>>))}
    [] u = "unionk" -> {Un(0, N), Un(0, I(0)), Un(0, I(1)), Un(1, N), Un(1, S(<<1>>))}
Universes == {"int", "float", "wide", "bytes", "list", "struct", "nest", "lrec", "union", "unionk"}

(* smaller universes for whole columns                                      *)
ColUniverse(u) ==
  CASE u = "int"    -> {N, I(-1), I(0), I(1)}
    [] u = "float"  -> {N, SM(1, <<32256>>), SM(1, <<0>>), SM(0, <<0>>), SM(0, <<15360>>), SM(0, <<32256>>)}
    [] u = "bytes"  -> {N, S(<<>>), S(<<0>>), S(<<0, 0>>), S(<<1>>)}
    [] u = "list"   -> {N, L(<<>>), L(<<N>>), L(<<I(0)>>), L(<<I(0), N>>)}
    [] u = "struct" -> {N, R(<<N, N>>), R(<<N, S(<<>>)>>), R(<<I(0), N>>), R(<<I(0), S(<<>>)>>)}
ColUniverses == {"int", "float", "bytes", "list", "struct"}

VARIABLES phase, uni, o, x, col, col2

vars == <<phase, uni, o, x, col, col2>>

Init == /\ phase = "start" /\ uni = "int" /\ o = DefaultOpt /\ x = <<N, N, N>> /\ col = <<>> /\ col2 = <<>>

(* Every case is reached in two steps (so that TLC workers share the work): *)
(* first the kind of case, the type family and the SortOptions are chosen,   *)
(* then the values; the invariants judge the second kind of state, which has *)
(* no successors.                                                            *)
Choose ==
  /\ phase = "start"
  /\ \/ phase' = "choose-triple" /\ uni' \in Universes
     \/ phase' = "choose-column" /\ uni' \in ColUniverses
     \/ phase' = "choose-pair" /\ uni' = "int"
  /\ o' \in AllOpts
  /\ UNCHANGED <<x, col, col2>>

(* three values of one type                                                 *)
Triple ==
  /\ phase = "choose-triple"
  /\ phase' = "triple"
  /\ \E a, b, c \in Universe(uni) : x' = <<a, b, c>>
  /\ UNCHANGED <<uni, o, col, col2>>

(* a column                                                                 *)
Column ==
  /\ phase = "choose-column"
  /\ phase' = "column"
  /\ col' \in SeqsUpTo(ColUniverse(uni), MaxCol)
  /\ UNCHANGED <<uni, o, x, col2>>

(* two columns of the same length (lexicographic order, partition, kernels)  *)
Pair ==
  /\ phase = "choose-pair"
  /\ phase' = "pair"
  /\ \E n \in 0..(IF MaxCol > 3 THEN 3 ELSE MaxCol) :
        /\ col' \in [1..n -> ColUniverse("int")]
        /\ col2' \in [1..n -> {N, S(<<>>), S(<<1>>)}]
  /\ UNCHANGED <<uni, o, x>>

Next == Choose \/ Triple \/ Column \/ Pair
Spec == Init /\ [][Next]_vars

(***************************************************************************)
(* Invariants                                                               *)
(***************************************************************************)
OrderLaws ==
  phase = "triple" =>
    LET a == x[1]  b == x[2]  c == x[3] IN
    /\ CmpV(a, b, o) \in {-1, 0, 1}
    /\ CmpV(a, b, o) = 0 - CmpV(b, a, o)
    /\ CmpV(a, a, o) = 0
    /\ Trans(a, b, c, o)
    /\ EqIffSame(a, b, o)
    /\ Mirror(a, b, o.nf)
    /\ NullPlaced(a, o)
    /\ DescReverses(a, b, o.nf)
    /\ NestedNullPlaced(a, o)
    /\ LexCmp(<<a, b>>, <<a, c>>, <<o, o>>) = CmpV(b, c, o)
    /\ (CmpV(a, b, o) # 0 => LexCmp(<<a, c>>, <<b, c>>, <<o, DefaultOpt>>) = CmpV(a, b, o))

Perms(n) == {p \in [1..n -> 0..(n - 1)] : \A i, j \in 1..n : i # j => p[i] # p[j]}
NaiveSorted(p, c, oo) == \A i, j \in 1..Len(p) : i < j => CmpV(c[p[i] + 1], c[p[j] + 1], oo) <= 0
Take(c, idx) == [k \in 1..Len(idx) |-> c[idx[k] + 1]]

SortLaws ==
  phase = "column" =>
    LET n == Len(col)
        P == Perms(n)
        SP == {p \in P : NaiveSorted(p, col, o)}            \* the sorted permutations
        Cands == SeqsUpTo(0..(n - 1), n)                     \* every index vector a kernel could return
    IN
    (* a sorted permutation exists, and acceptance = sortedness              *)
    /\ SP # {}
    /\ \A p \in P : IsSortedPerm(p, col, o) <=> (p \in SP)
    (* acceptance under a limit = being a prefix of some sorted permutation  *)
    /\ \A lim \in -1..(n + 1) :
          LET Pref == {SubSeq(p, 1, EffLimit(n, lim)) : p \in SP} IN
          \A idx \in Cands : IsSortedPrefix(idx, col, o, lim) <=> (idx \in Pref)
    (* sorted values are exactly the values of accepted index vectors        *)
    /\ \A lim \in {-1, 1, 2} :
          LET Pref == {SubSeq(p, 1, EffLimit(n, lim)) : p \in SP}
              Vals == {Take(col, idx) : idx \in Pref} IN
          \A out \in SeqsUpTo({col[i] : i \in 1..n}, n) : IsSortedValues(out, col, o, lim) <=> (out \in Vals)

RankLaws ==
  phase = "column" =>
    LET n == Len(col)  r == RankOf(col, o) IN
    /\ \A i, j \in 1..n : (r[i] <= r[j]) <=> (CmpV(col[i], col[j], o) <= 0)
    /\ \A i \in 1..n : r[i] >= 1 /\ r[i] <= n
    (* ties share the highest rank of the group: exactly r[i] rows are <= row i *)
    /\ \A i \in 1..n : IsNull(col[i]) =>
          r[i] = (IF o.nf THEN Cardinality({j \in 1..n : IsNull(col[j])}) ELSE n)
    /\ \A p \in Perms(n) : NaiveSorted(p, col, o) =>
          \A k \in 1..n : r[p[k] + 1] >= k

Ranges(starts, n) ==      \* the ranges induced by a set of 1-based start rows
  LET s == starts \cup {n + 1} IN
  {<<a - 1, (CHOOSE b \in s : b > a /\ \A z \in s : z > a => b <= z) - 1>> : a \in starts}

PartitionLaws ==
  (phase = "pair" /\ o = DefaultOpt) =>
    LET n == Len(col)  cols == <<col, col2>>
        St == IF n = 0 THEN {} ELSE PartitionStarts(cols, n)
        Rg == IF n = 0 THEN {} ELSE Ranges(St, n)
    IN
    /\ n > 0 => 1 \in St
    /\ \A i \in 2..n : (i \in St) <=> (col[i] # col[i - 1] \/ col2[i] # col2[i - 1])
    (* the sequence of ranges in increasing order is accepted, and only that  *)
    /\ \A out \in SeqsUpTo({<<a, b>> : a, b \in 0..n}, n) :
          IsPartition(out, cols, n) <=>
             /\ \A k \in 1..(Len(out) - 1) : out[k][1] < out[k + 1][1]
             /\ {out[k] : k \in 1..Len(out)} = Rg
             /\ Len(out) = Cardinality(St)

LexLaws ==
  phase = "pair" =>
    LET n == Len(col)  cols == <<col, col2>>  opts == <<o, Opt(~o.desc, o.nf)>> IN
    /\ \A i, j \in 1..n : RowCmp(cols, opts, i, j) = LexCmp(<<col[i], col2[i]>>, <<col[j], col2[j]>>, opts)
    /\ \E p \in Perms(n) : IsLexSortedPrefix(p, cols, opts, -1)
    /\ \A p \in Perms(n) : IsLexSortedPrefix(p, cols, opts, -1) =>
          /\ NaiveSorted(p, col, o)             \* the first column alone is sorted
          /\ IsLexSortedValues(<<Take(col, p), Take(col2, p)>>, cols, opts, -1)

KernelLaws ==
  phase = "pair" =>
    \A i \in 1..Len(col) : \A j \in 1..Len(col) :
      LET a == col[i]  b == col[j]  K(f) == KernVal(f, a, b) IN
      /\ \A f \in KernelNames : K(f) \in {0, 1, 2}
      /\ (K("eq") = 2) <=> (IsNull(a) \/ IsNull(b))
      /\ \A f \in {"neq", "lt", "lt_eq", "gt", "gt_eq"} : (K(f) = 2) <=> (K("eq") = 2)
      /\ K("distinct") # 2 /\ K("not_distinct") = 1 - K("distinct")
      /\ K("eq") # 2 =>
           /\ K("neq") = 1 - K("eq")
           /\ K("lt_eq") = (IF K("lt") = 1 \/ K("eq") = 1 THEN 1 ELSE 0)
           /\ K("gt") = 1 - K("lt_eq") /\ K("gt_eq") = 1 - K("lt")
           /\ K("lt") = KernVal("gt", b, a)
           /\ K("distinct") = K("neq")
      /\ K("not_distinct") = B(a = b)
      /\ KernRows("eq", col, FALSE, <<b>>, TRUE)[i] = K("eq")
      /\ KernRows("lt", <<a>>, TRUE, col, FALSE)[j] = K("lt")
=============================================================================
