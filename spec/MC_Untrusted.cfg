SPECIFICATION Spec
CONSTANTS
  MaxRegions = 3
  Kinds = {"magic", "len4", "len8", "zigzag", "uvarint", "body"}
  Widths = {1, 2, 4}
INVARIANTS LenLaw PrefixLaw SuffixLaw Locality FrameLocality Protocol
CHECK_DEADLOCK FALSE
