------------------------------- MODULE IpcDict -------------------------------
(***************************************************************************)
(* C04: the dictionary state machine of the Arrow IPC writers and readers. *)
(*                                                                         *)
(* Writer side: `DictionaryTracker::insert_column` and the traversal of    *)
(* `IpcDataGenerator::encode_all_dicts` (arrow-ipc/src/writer.rs:765-902,  *)
(* 1455-1567).  A schema has dictionary ids 1..nd, numbered in the depth-  *)
(* first order of the schema with a nested dictionary before its parent    *)
(* (the order in which ids are assigned and in which a batch's dictionaries*)
(* are visited).  A write call presents one dictionary per id: the record  *)
(* [vals |-> sequence of values, obj |-> identity of the values array]     *)
(* (`obj` models ArrayData::ptr_eq: equal obj = the very same array).      *)
(* `kind` = "file" stands for error_on_replacement = true (FileWriter),    *)
(* "stream" for false (StreamWriter, StreamEncoder, Flight with Resend).   *)
(*                                                                         *)
(* Reader side: `update_dictionaries` (reader.rs:837-864).  A stream       *)
(* reader applies dictionary messages in stream order, so the i-th record  *)
(* batch is resolved with the dictionaries as they stand when its message  *)
(* arrives; a file reader loads every dictionary block of the footer       *)
(* before any batch (reader.rs:1285-1290), so every batch is resolved with *)
(* the final dictionaries.                                                 *)
(*                                                                         *)
(* The module is transcribed from the code, including the order of side    *)
(* effects: insert_column updates the tracker while the dictionaries of a  *)
(* batch are visited, before anything is written, and a later id can still *)
(* fail the whole write.  The round-trip invariant R1 is what C04 demands. *)
(***************************************************************************)
EXTENDS Naturals, Sequences, FiniteSets

CONSTANT NoDict        \* "no entry": tracker has not seen the id / reader holds no dictionary

VARIABLES
  kind,       \* "file" | "stream"
  handling,   \* "resend" | "delta"      (IpcWriteOptions::with_dictionary_handling)
  nd,         \* number of dictionary ids
  written,    \* DictionaryTracker::written : [1..nd -> NoDict or dictionary]
  msgs,       \* messages emitted so far
  closed,     \* finish() was called (EOS marker / footer written)
  given       \* ghost: every write call so far [dicts, ok, clean, out]

dvars == <<kind, handling, nd, written, msgs, closed, given>>

-----------------------------------------------------------------------------
(* Messages.  All of one record shape so that sequences stay homogeneous.    *)
SchemaMsg      == [k |-> "schema", id |-> 0, delta |-> FALSE, vals |-> <<>>]
DictMsg(d, dl, v) == [k |-> "dict", id |-> d, delta |-> dl, vals |-> v]
BatchMsg       == [k |-> "batch", id |-> 0, delta |-> FALSE, vals |-> <<>>]
EosMsg         == [k |-> "eos", id |-> 0, delta |-> FALSE, vals |-> <<>>]

Dict(v, o) == [vals |-> v, obj |-> o]

-----------------------------------------------------------------------------
(* compare_dictionaries (writer.rs:1544-1567)                                *)
Compare(old, new) ==
  IF Len(old) = Len(new) THEN (IF old = new THEN "Equal" ELSE "NotEqual")
  ELSE IF Len(new) < Len(old) THEN "NotEqual"
  ELSE IF SubSeq(new, 1, Len(old)) = old THEN "Delta" ELSE "NotEqual"

(* DictionaryTracker::insert_column (writer.rs:1455-1518):                   *)
(* [upd |-> what is emitted, w |-> the tracker entry afterwards]            *)
Insert(errOnRepl, hand, old, new) ==
  IF old = NoDict THEN [upd |-> "new", w |-> new]
  ELSE IF old.obj = new.obj THEN [upd |-> "none", w |-> old]          \* ptr_eq fast path
  ELSE LET c == Compare(old.vals, new.vals) IN
       IF c = "Equal" THEN [upd |-> "none", w |-> old]               \* the old array stays in the tracker
       ELSE IF c = "NotEqual" \/ hand = "resend"
            THEN (IF errOnRepl THEN [upd |-> "error", w |-> old] ELSE [upd |-> "replaced", w |-> new])
            ELSE [upd |-> "delta", w |-> new]

(* the dictionary message an update produces (encode_dictionaries, 810-834) *)
UpdMsgs(d, upd, old, new) ==
  CASE upd \in {"new", "replaced"} -> <<DictMsg(d, FALSE, new.vals)>>
    [] upd = "delta" -> <<DictMsg(d, TRUE, SubSeq(new.vals, Len(old.vals) + 1, Len(new.vals)))>>
    [] OTHER -> <<>>

(* encode_all_dicts: ids visited in order; the tracker is updated on the way; *)
(* an error abandons the dictionary messages collected so far (nothing of the *)
(* batch is written) but NOT the tracker updates already made.                *)
RECURSIVE EncodeFrom(_, _, _, _, _, _)
EncodeFrom(errOnRepl, hand, w, dicts, d, acc) ==
  IF d > Len(dicts) THEN [w |-> w, out |-> acc, err |-> FALSE]
  ELSE LET r == Insert(errOnRepl, hand, w[d], dicts[d]) IN
       IF r.upd = "error" THEN [w |-> w, out |-> <<>>, err |-> TRUE]
       ELSE EncodeFrom(errOnRepl, hand, [w EXCEPT ![d] = r.w], dicts, d + 1,
                       acc \o UpdMsgs(d, r.upd, w[d], dicts[d]))

Encode(k, hand, w, dicts) == EncodeFrom(k = "file", hand, w, dicts, 1, <<>>)

(* the update kind per id, for reporting / coverage (no side effects)         *)
UpdKinds(k, hand, w, dicts) ==
  LET F[d \in 0..Len(dicts)] ==
        IF d = 0 THEN [w |-> w, ks |-> <<>>, dead |-> FALSE]
        ELSE LET p == F[d - 1] IN
             IF p.dead THEN [w |-> p.w, ks |-> Append(p.ks, "unvisited"), dead |-> TRUE]
             ELSE LET r == Insert(k = "file", hand, p.w[d], dicts[d]) IN
                  [w |-> [p.w EXCEPT ![d] = r.w], ks |-> Append(p.ks, r.upd), dead |-> r.upd = "error"]
  IN F[Len(dicts)].ks

-----------------------------------------------------------------------------
(* Reader state [bad, d]: d : [1..n -> NoDict or sequence of values]; bad once  *)
(* a delta arrives for an id without dictionary (update_dictionaries errors).  *)
NoDicts(n) == [d \in 1..n |-> NoDict]
Rd0(n) == [bad |-> FALSE, d |-> NoDicts(n)]

ApplyDict(rd, m) ==
  IF rd.bad THEN rd
  ELSE IF ~m.delta THEN [rd EXCEPT !.d[m.id] = m.vals]
  ELSE IF rd.d[m.id] = NoDict THEN [rd EXCEPT !.bad = TRUE]
  ELSE [rd EXCEPT !.d[m.id] = rd.d[m.id] \o m.vals]

(* dictionaries after all dictionary messages of ms (FileReader, in block order) *)
RECURSIVE FinalDicts(_, _)
FinalDicts(ms, rd) ==
  IF ms = <<>> THEN rd
  ELSE FinalDicts(Tail(ms), IF Head(ms).k = "dict" THEN ApplyDict(rd, Head(ms)) ELSE rd)

(* dictionaries in force at each record-batch message, in order (StreamReader,   *)
(* StreamDecoder, FlightDataDecoder)                                             *)
RECURSIVE StreamSnaps(_, _)
StreamSnaps(ms, rd) ==
  IF ms = <<>> THEN <<>>
  ELSE LET m == Head(ms) IN
       IF m.k = "dict" THEN StreamSnaps(Tail(ms), ApplyDict(rd, m))
       ELSE IF m.k = "batch" THEN <<rd>> \o StreamSnaps(Tail(ms), rd)
       ELSE StreamSnaps(Tail(ms), rd)

NumBatches(ms) == Cardinality({i \in DOMAIN ms : ms[i].k = "batch"})

(* the dictionaries the reader of `k` resolves the j-th record batch with        *)
ReaderSnaps(k, n, ms) ==
  IF k = "file" THEN [j \in 1..NumBatches(ms) |-> FinalDicts(ms, Rd0(n))]
  ELSE StreamSnaps(ms, Rd0(n))

(* resolving keys 1..Len(dict) (0 = null key) through a reader dictionary         *)
Resolve(keys, dict) ==
  [i \in DOMAIN keys |-> IF keys[i] = 0 THEN "~null"
                         ELSE IF dict = NoDict \/ keys[i] > Len(dict) THEN "~out-of-range"
                         ELSE dict[keys[i]]]
AllKeys(v) == [i \in 1..Len(v) |-> i] \o <<0>>     \* a batch that uses every entry, and a null

-----------------------------------------------------------------------------
(* Ids whose tracker entry differs from what a reader holds after everything      *)
(* emitted so far: the tracker believes it has sent something it has not.         *)
Stale ==
  LET rd == FinalDicts(msgs, Rd0(nd)) IN
  IF rd.bad THEN 1..nd
  ELSE {d \in 1..nd : written[d] # NoDict /\ written[d].vals # rd.d[d]}

-----------------------------------------------------------------------------
(* Actions                                                                        *)
Start(k, h, n) ==
  /\ kind' = k /\ handling' = h /\ nd' = n
  /\ written' = NoDicts(n) /\ msgs' = <<SchemaMsg>> /\ closed' = FALSE /\ given' = <<>>

(* FileWriter::write / StreamWriter::write / StreamEncoder::encode                *)
Write(dicts) ==
  LET e == Encode(kind, handling, written, dicts) IN
  /\ ~closed
  /\ written' = e.w
  /\ msgs' = IF e.err THEN msgs ELSE msgs \o e.out \o <<BatchMsg>>
  /\ given' = Append(given, [dicts |-> dicts, ok |-> ~e.err, clean |-> Stale = {}, out |-> e.out])
  /\ UNCHANGED <<kind, handling, nd, closed>>

Finish ==
  /\ ~closed /\ closed' = TRUE /\ msgs' = Append(msgs, EosMsg)
  /\ UNCHANGED <<kind, handling, nd, written, given>>

-----------------------------------------------------------------------------
(* Properties                                                                     *)
OkWrites == {i \in DOMAIN given : given[i].ok}
(* position of write i among the successful writes = index of its batch message   *)
BatchNo(i) == Cardinality({j \in OkWrites : j <= i})

Readable == kind = "stream" \/ closed      \* a file has no footer before finish()

(* R1: every batch that was accepted is resolved to the values it was written     *)
(* with - by the reader of this writer kind, for a batch using every dictionary   *)
(* entry.  `clean` excludes the writes made after a failed write had advanced the *)
(* tracker without emitting (known finding C04-file-delta-tracker-ahead; with     *)
(* ContinueAfterError = FALSE in the model no such write exists).                 *)
RoundTripsWith(snaps, i) ==
  LET j == BatchNo(i) IN
  /\ j <= Len(snaps) /\ ~snaps[j].bad
  /\ \A d \in 1..nd :
       LET v == given[i].dicts[d].vals IN Resolve(AllKeys(v), snaps[j].d[d]) = v \o <<"~null">>
RoundTrips(i) == RoundTripsWith(ReaderSnaps(kind, nd, msgs), i)

R1_RoundTrip ==
  Readable => LET snaps == ReaderSnaps(kind, nd, msgs) IN
              \A i \in OkWrites : given[i].clean => RoundTripsWith(snaps, i)
R1_Unconditional ==
  Readable => LET snaps == ReaderSnaps(kind, nd, msgs) IN \A i \in OkWrites : RoundTripsWith(snaps, i)

(* the stream readers hold exactly the dictionary of the batch, not only an       *)
(* extension of it                                                                *)
R1s_StreamExact ==
  kind = "stream" =>
    LET snaps == StreamSnaps(msgs, Rd0(nd)) IN
    \A i \in OkWrites : \A d \in 1..nd : ~snaps[BatchNo(i)].bad /\ snaps[BatchNo(i)].d[d] = given[i].dicts[d].vals

(* R2: a file never holds two full dictionaries for one id                        *)
R2_FileNoReplacement ==
  kind = "file" => \A d \in 1..nd : Cardinality({i \in DOMAIN msgs : msgs[i].k = "dict" /\ msgs[i].id = d /\ ~msgs[i].delta}) <= 1

(* R3: a refused batch leaves no message behind; accepted batches are all there    *)
R3_OneMessagePerAcceptedBatch == NumBatches(msgs) = Cardinality(OkWrites)

(* framing order: schema first and only there, EOS last and only when closed, a   *)
(* delta only for an id that already has a dictionary, deltas only when asked for *)
I_Order ==
  /\ msgs # <<>> /\ msgs[1].k = "schema"
  /\ \A i \in 2..Len(msgs) : msgs[i].k # "schema"
  /\ \A i \in DOMAIN msgs : msgs[i].k = "eos" => (closed /\ i = Len(msgs))
  /\ \A i \in DOMAIN msgs : (msgs[i].k = "dict" /\ msgs[i].delta) =>
        /\ handling = "delta"
        /\ \E j \in 1..(i - 1) : msgs[j].k = "dict" /\ msgs[j].id = msgs[i].id /\ ~msgs[j].delta
  /\ \A i \in DOMAIN msgs : msgs[i].k = "dict" => msgs[i].id \in 1..nd

(* the tracker can only run ahead of the readers after a refused write, and never  *)
(* for the stream writers (which refuse nothing)                                   *)
I_Sync ==
  /\ LET st == Stale IN
     /\ kind = "stream" => st = {}
     /\ st # {} => \E i \in DOMAIN given : ~given[i].ok
  /\ (\A i \in DOMAIN given : given[i].ok) => \A i \in DOMAIN given : given[i].clean

(* only the file writer refuses, and only a batch that is not the first            *)
I_Refusals == \A i \in DOMAIN given : ~given[i].ok => (kind = "file" /\ i > 1)
=============================================================================
