-------------------------- MODULE Trace_RowFormat --------------------------
(* impl -> spec (C11): recorded histories of real RowConverter instances.    *)
(* An episode starts with `new` (one SortOptions per field); `conv` events    *)
(* (convert_columns / append, any input arrays) add rows -- order keys of     *)
(* every field plus the encoded bytes -- to the instance's row set, and F1/F2 *)
(* are judged for every new row against every row the instance has produced  *)
(* so far.  `ord` events carry the results of Row's Ord / Eq, `dec` events    *)
(* the order keys of convert_rows on a selection of rows (possibly through    *)
(* RowParser), `bin` events rows that went through try_into_binary /          *)
(* from_binary.                                                               *)
EXTENDS RowFormat, TraceBase

VARIABLES l, opts, rows

NewRows(ev) ==
  [i \in 1..Len(ev.bytes) |-> [k |-> [c \in 1..Len(ev.keys) |-> ev.keys[c][i]], b |-> ev.bytes[i]]]

ConvShapeOK(ev) ==
  /\ Len(ev.keys) = Len(opts)
  /\ \A c \in 1..Len(ev.keys) : Len(ev.keys[c]) = Len(ev.bytes)

(* known findings (known_findings.txt), identified narrowly                   *)
KF(ev) == ""

Conv(ev) ==
  IF ev.err \/ ~ConvShapeOK(ev)
  THEN /\ JudgeKF(FALSE, l, <<"conv", ev.ty, "error or malformed result">>, KF(ev))
       /\ UNCHANGED rows
  ELSE LET all == rows \o NewRows(ev)
           lo == Len(rows) + 1
           hi == Len(all)
       IN /\ JudgeKF(PairsOK(all, lo, hi, opts), l,
                     <<"conv F1/F2", ev.ty, BadPair(all, lo, hi, opts)>>, KF(ev))
          /\ rows' = all

Ord(ev) ==
  Judge(/\ Len(ev.cmp) = Len(ev.pairs) /\ Len(ev.eq) = Len(ev.pairs)
        /\ \A k \in 1..Len(ev.pairs) :
             LET a == rows[ev.pairs[k][1] + 1].b  b == rows[ev.pairs[k][2] + 1].b IN
             /\ ev.cmp[k] = ByteCmp(a, b)
             /\ ev.eq[k] = (a = b),
        l, <<"ord F5", ev.ty>>)

Dec(ev) ==
  JudgeKF(~ev.err /\ DecodedOK(ev.keys, ev.sel, rows, Len(opts)), l, <<"dec F3", ev.via, ev.ty>>, KF(ev))

Bin(ev) ==
  JudgeKF(/\ ~ev.err
          /\ Len(ev.bytes) = Len(ev.sel)
          /\ \A k \in 1..Len(ev.sel) : ev.bytes[k] = rows[ev.sel[k] + 1].b
          /\ DecodedOK(ev.keys, ev.sel, rows, Len(opts)),
          l, <<"bin F4", ev.ty>>, KF(ev))

Init == l = 1 /\ opts = <<>> /\ rows = <<>>
Next == /\ l <= Len(Rec)
        /\ l' = l + 1
        /\ LET ev == Rec[l] IN
           CASE ev.op = "new"  -> /\ opts' = [c \in 1..Len(ev.opts) |-> Opt(ev.opts[c][1], ev.opts[c][2])]
                                  /\ rows' = <<>>
             [] ev.op = "conv" -> Conv(ev) /\ UNCHANGED opts
             [] ev.op = "ord"  -> Ord(ev) /\ UNCHANGED <<opts, rows>>
             [] ev.op = "dec"  -> Dec(ev) /\ UNCHANGED <<opts, rows>>
             [] ev.op = "bin"  -> Bin(ev) /\ UNCHANGED <<opts, rows>>
Spec == Init /\ [][Next]_<<l, opts, rows>>
=============================================================================
