-------------------------- MODULE Trace_RowFormat --------------------------
(* impl -> spec (C11): recorded histories of real RowConverter instances.    *)
(* An episode starts with `new` (one SortOptions per field); `conv` events    *)
(* (convert_columns / append, any input arrays) add rows -- order keys of     *)
(* every field plus the encoded bytes -- to the instance's row set, and F1/F2 *)
(* are judged for every new row against every row the instance has produced  *)
(* so far.  `ord` events carry the results of Row's Ord / Eq, `dec` events    *)
(* the order keys of convert_rows on a selection of rows (possibly through    *)
(* RowParser), `bin` events rows that went through try_into_binary /          *)
(* from_binary.                                                               *)
EXTENDS RowFormat, TraceBase

VARIABLES l, opts, fam, dn, rows

NewRows(ev) ==
  [i \in 1..Len(ev.bytes) |-> [k |-> [c \in 1..Len(ev.keys) |-> ev.keys[c][i]], b |-> ev.bytes[i]]]

ConvShapeOK(ev) ==
  /\ Len(ev.keys) = Len(opts)
  /\ \A c \in 1..Len(ev.keys) : Len(ev.keys[c]) = Len(ev.bytes)

(***************************************************************************)
(* Known findings (known_findings.txt).                                     *)
(*                                                                         *)
(* C11-union-descending-child-not-inverted: for a top-level Union field     *)
(* with descending = true the type id byte is inverted but the child bytes   *)
(* are not (lib.rs encode_column, Encoder::Union), so values of one type id  *)
(* come out ascending with nulls on the side opposite to nulls_first.  The   *)
(* predicate is exact: the event is attributed to the finding only if every  *)
(* new pair obeys F1/F2 for *that* order of the union fields; any other      *)
(* deviation is still rejected.                                              *)
(*                                                                         *)
(* C11-dense-union-decode-type-id-index: convert_rows indexes the per-child  *)
(* counters of a Dense union by type id instead of child position            *)
(* (lib.rs decode_column, "build offsets for dense unions") and panics when  *)
(* a type id is not a valid child position.                                  *)
(***************************************************************************)
UnionDescField(c) == fam[c] = "union" /\ opts[c].desc
DefectCmpU(a, b, o) ==
  IF a.i # b.i THEN IntCmp(b.i, a.i) ELSE CmpV(a.c[1], b.c[1], ChildOpt(o))
RECURSIVE DefectLexFrom(_, _, _)
DefectLexFrom(r1, r2, i) ==
  IF i > Len(opts) THEN 0
  ELSE LET c == IF UnionDescField(i) THEN DefectCmpU(r1[i], r2[i], opts[i]) ELSE CmpV(r1[i], r2[i], opts[i]) IN
       IF c # 0 THEN c ELSE DefectLexFrom(r1, r2, i + 1)
DefectPairsOK(all, lo, hi) ==
  \A i \in lo..hi : \A j \in 1..i :
    LET c == DefectLexFrom(all[i].k, all[j].k, 1) IN
    /\ ByteCmp(all[i].b, all[j].b) = c
    /\ (all[i].b = all[j].b) <=> (c = 0)

KFConv(all, lo, hi) ==
  IF (\E c \in 1..Len(opts) : UnionDescField(c)) /\ DefectPairsOK(all, lo, hi)
  THEN "C11-union-descending-child-not-inverted" ELSE ""
KFDec(ev) ==
  IF ev.err /\ (\E c \in 1..Len(opts) : dn[c]) /\ ev.sel # <<>>
  THEN "C11-dense-union-decode-type-id-index" ELSE ""

(***************************************************************************)
(* Refinement information (never a rejection): for a converter with a single *)
(* variable-length byte field the real bytes are compared with the byte-level *)
(* model EncVar of RowFormat.tla at the real block sizes (8-byte mini blocks, *)
(* 4 of them, then 32-byte blocks) -- the model whose scaled-down instance    *)
(* MC_RowFormat checks.  A difference prints a REFINEMENT-INFO line.          *)
(***************************************************************************)
RealP == [mini |-> 8, count |-> 4]
RefinesModel(ev) ==
  (Len(opts) = 1 /\ fam[1] \in {"bytes", "view"} /\ ~ev.err /\ ConvShapeOK(ev)) =>
     \A i \in 1..Len(ev.bytes) : ev.bytes[i] = EncVar(ev.keys[1][i], opts[1], RealP)
RefinementInfo(ev) ==
  IF RefinesModel(ev) THEN TRUE ELSE PrintT(<<"REFINEMENT-INFO", l, "row bytes differ from the model encoding", ev.ty>>)

Conv(ev) ==
  IF ev.err \/ ~ConvShapeOK(ev)
  THEN /\ Judge(FALSE, l, "conv error")
       /\ UNCHANGED rows
  ELSE LET all == rows \o NewRows(ev)
           lo == Len(rows) + 1
           hi == Len(all)
       IN /\ JudgeKF(PairsOK(all, lo, hi, opts), l,
                     "conv", KFConv(all, lo, hi))
          /\ rows' = all

Ord(ev) ==
  Judge(/\ ~ev.err                      \* a panic of Row / OwnedRow comparison is an outcome, and a wrong one
        /\ Len(ev.cmp) = Len(ev.pairs) /\ Len(ev.eq) = Len(ev.pairs)
        /\ \A k \in 1..Len(ev.pairs) :
             LET a == rows[ev.pairs[k][1] + 1].b  b == rows[ev.pairs[k][2] + 1].b IN
             /\ ev.cmp[k] = ByteCmp(a, b)
             /\ ev.eq[k] = (a = b),
        l, "ord F5")

Dec(ev) ==
  JudgeKF(~ev.err /\ DecodedOK(ev.keys, ev.sel, rows, Len(opts)), l, "dec F3", KFDec(ev))

Bin(ev) ==
  JudgeKF(/\ ~ev.err
          /\ Len(ev.bytes) = Len(ev.sel)
          /\ \A k \in 1..Len(ev.sel) : ev.bytes[k] = rows[ev.sel[k] + 1].b
          /\ DecodedOK(ev.keys, ev.sel, rows, Len(opts)),
          l, "bin F4", KFDec(ev))

Init == l = 1 /\ opts = <<>> /\ fam = <<>> /\ dn = <<>> /\ rows = <<>>
Next == /\ l <= Len(Rec)
        /\ l' = l + 1
        /\ LET ev == Rec[l] IN
           CASE ev.op = "new"  -> /\ opts' = [c \in 1..Len(ev.opts) |-> Opt(ev.opts[c][1], ev.opts[c][2])]
                                  /\ fam' = ev.fam /\ dn' = ev.dn
                                  /\ rows' = <<>>
             [] ev.op = "conv" -> Conv(ev) /\ RefinementInfo(ev) /\ UNCHANGED <<opts, fam, dn>>
             [] ev.op = "ord"  -> Ord(ev) /\ UNCHANGED <<opts, fam, dn, rows>>
             [] ev.op = "dec"  -> Dec(ev) /\ UNCHANGED <<opts, fam, dn, rows>>
             [] ev.op = "bin"  -> Bin(ev) /\ UNCHANGED <<opts, fam, dn, rows>>
Spec == Init /\ [][Next]_<<l, opts, fam, dn, rows>>
=============================================================================
