SPECIFICATION TSpec
POSTCONDITION AllConsumed
CHECK_DEADLOCK FALSE
