--------------------------- MODULE MC_PushDecoder ---------------------------
(***************************************************************************)
(* Exhaustive exploration of the push-decoder protocol for a tiny file     *)
(* (2 row groups x 2 columns, pages misaligned between the columns, a      *)
(* dictionary page on column 2): every configuration of `Configs` x every  *)
(* delivery schedule (exact, partial, supersets, early, clear, rebuild),   *)
(* with at most MaxOdd non-exact environment actions per behaviour.        *)
(***************************************************************************)
EXTENDS PushDecoder, TLC

CONSTANTS MaxOdd, BatchSizes, InitBatch, RgLists, Sels, PredMasks, Offsets, Limits, Projs, PredCols, Modes, MaxPreds

MCRgRows == <<3, 2>>
MCFirsts == <<<< <<0, 2>>, <<0, 1>> >>, << <<0, 1>>, <<0>> >>>>   \* [g][c]
MCHasDict == <<FALSE, TRUE>>
N == NumRows(MCRgRows)

PredSeqs == UNION {[1..n -> PredMasks] : n \in 0..MaxPreds}
ColSeqs(n) == [1..n -> PredCols]

Configs ==
  {[rgs |-> r, hasSel |-> hs, sel |-> s, preds |-> p, predcols |-> pc, offset |-> o, limit |-> l,
    bs |-> b, proj |-> pj, mode |-> m] :
      r \in RgLists, hs \in BOOLEAN, s \in Sels, p \in PredSeqs, pc \in UNION {ColSeqs(n) : n \in 0..MaxPreds},
      o \in Offsets, l \in Limits, b \in InitBatch, pj \in Projs, m \in Modes}

ValidCfg(c) ==
  /\ Len(c.predcols) = Len(c.preds)
  /\ IF c.hasSel THEN Len(c.sel) = Len(ChosenIds(MCRgRows, c.rgs)) ELSE c.sel = <<>>

MCInit == \E c \in Configs : ValidCfg(c) /\ InitWith(c)

MCNext == \/ Call \/ Internal
          \/ PushExact \/ PushSubset(MaxOdd) \/ PushSuperset(MaxOdd) \/ PushEarly(MaxOdd) \/ ClearAll(MaxOdd)
          \/ Rebuild(BatchSizes, MaxOdd)

MCSpec == MCInit /\ [][MCNext]_vars
(* fair environment: calls keep being made, and a request that keeps being  *)
(* made is eventually answered exactly (strong fairness: the caller may poll *)
(* again before the data arrives)                                           *)
FairSpec == MCSpec /\ WF_vars(Call) /\ WF_vars(Internal) /\ SF_vars(PushExact)
Termination == <>AllDone

(* values for the .cfg files *)
RgListsQuick == {<<0, 1>>}
RgListsAll == {<<0, 1>>, <<1, 0>>}
SelsTiny == {<<>>, <<0, 1, 0, 0, 1>>}
SelsQuick == {<<>>, <<1, 0, 1, 0, 1>>, <<0, 0, 1, 1, 0>>, <<0, 1, 0, 0, 1>>}
SelsAll == {<<>>} \cup [1..5 -> {0, 1}] \cup [1..2 -> {0, 1}]
MasksQuick == {<<1, 0, 1, 1, 0>>, <<0, 2, 1, 0, 1>>}
MasksMore == {<<1, 0, 1, 1, 0>>, <<0, 2, 1, 0, 1>>, <<0, 0, 0, 1, 1>>, <<1, 1, 1, 1, 1>>}
OffsetsQuick == {1}
OffsetsAll == {-1, 1}
LimitsQuick == {-1, 2}
LimitsAll == {-1, 0, 2}
ProjsQuick == {{1}, {1, 2}}
ProjsAll == {{1}, {2}, {1, 2}}
=============================================================================
