SPECIFICATION Spec
CONSTANTS
  ByteAlphabet = {0, 97, 127, 128, 255}
  MaxBytes = 4
  CodePoints = {97, 127, 128, 2047, 55295, 65535, 1114111}
  MaxChars = 3
INVARIANTS ThmSound ThmCodec ThmUtf8Kept
CHECK_DEADLOCK FALSE
