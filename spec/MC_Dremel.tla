------------------------------ MODULE MC_Dremel ------------------------------
(***************************************************************************)
(* Exhaustive check of the Dremel theorems over a bounded universe:         *)
(* every schema of nesting depth <= Depth built from optional / required    *)
(* leaves, lists and structs (one or two fields), every column of at most   *)
(* MaxRows(s) rows of every such schema over a leaf alphabet of two values, *)
(* lists of length <= MaxLen -- which includes null list vs empty list vs   *)
(* list of nulls, null struct vs struct of nulls, lists of lists, lists of  *)
(* structs and structs of lists at every optionality.                       *)
(* The schema is chosen in the initial state, rows are appended one by one  *)
(* (so that TLC workers share the work); the invariants judge every state.  *)
(***************************************************************************)
EXTENDS Dremel, TLC

CONSTANTS MaxVals,    \* only schemas with at most this many values are explored
          Depth,      \* maximal nesting depth of group nodes above a leaf
          MaxLen,     \* maximal list length
          WideDepth,  \* two-field structs are built over children of depth < WideDepth only
          RowBudget   \* a second row is appended only for schemas with at most this many values

Alphabet == {"a", "b"}

RECURSIVE Schemas(_)
Schemas(d) ==
  IF d = 0 THEN {Leaf(o) : o \in BOOLEAN}
  ELSE LET P == Schemas(d - 1)
           W == IF d <= WideDepth THEN P ELSE {}
       IN P \cup {List(o, e) : o \in BOOLEAN, e \in P}
            \cup {Struct(o, <<a>>) : o \in BOOLEAN, a \in P}
            \cup {Struct(o, <<a, b>>) : o \in BOOLEAN, a \in W, b \in W}
            \cup {Struct(o, <<a, Leaf(TRUE)>>) : o \in BOOLEAN, a \in P}

SeqsUpTo(X, n) == UNION {[1..k -> X] : k \in 0..n}

RECURSIVE Values(_)
Values(s) ==
  (IF s.opt THEN {Null} ELSE {}) \cup
  CASE s.k = "leaf"   -> {Val(a) : a \in Alphabet}
    [] s.k = "struct" -> IF Len(s.c) = 1 THEN {Rcd(<<a>>) : a \in Values(s.c[1])}
                         ELSE {Rcd(<<a, b>>) : a \in Values(s.c[1]), b \in Values(s.c[2])}
    [] s.k = "list"   -> {Lst(c) : c \in SeqsUpTo(Values(s.c[1]), MaxLen)}

(* the number of values of a schema, by arithmetic (no set is built)        *)
RECURSIVE NVals(_), Pow(_, _)
Pow(x, k) == IF k = 0 THEN 1 ELSE x * Pow(x, k - 1)
NVals(sc) ==
  (IF sc.opt THEN 1 ELSE 0) +
  CASE sc.k = "leaf"   -> Cardinality(Alphabet)
    [] sc.k = "struct" -> IF Len(sc.c) = 1 THEN NVals(sc.c[1]) ELSE NVals(sc.c[1]) * NVals(sc.c[2])
    [] sc.k = "list"   -> LET n == NVals(sc.c[1]) IN
                          IF n > 1000 THEN 1000000 ELSE LET F[k \in 0..MaxLen] == IF k = 0 THEN 1 ELSE F[k - 1] + Pow(n, k) IN F[MaxLen]

VARIABLES s, rows
vars == <<s, rows>>

Init == s \in {x \in Schemas(Depth) : NVals(x) <= MaxVals} /\ rows = <<>>

AddRow ==
  /\ Len(rows) = 0 \/ (Len(rows) = 1 /\ NVals(s) <= RowBudget)
  /\ \E v \in Values(s) : rows' = Append(rows, v)
  /\ UNCHANGED s

Next == AddRow
Spec == Init /\ [][Next]_vars

Typed == \A i \in 1..Len(rows) : WellTyped(s, rows[i])
ThmRoundTrip == RoundTrip(s, rows)
ThmLevels == LevelsSound(s, rows)
(* the arithmetic count is the size of the universe                         *)
ThmCount == (rows = <<>> /\ NVals(s) <= 300) => Cardinality(Values(s)) = NVals(s)
(* distinct columns have distinct shreddings (follows from the round trip; *)
(* stated on its own for the one-row columns of small schemas)             *)
ThmInjective ==
  (Len(rows) = 1 /\ NVals(s) <= 40) =>
     \A w \in Values(s) : (Shred(s, <<w>>) = Shred(s, rows)) => w = rows[1]
=============================================================================
