--------------------------- MODULE MC_ParquetScan ---------------------------
(***************************************************************************)
(* Every scan configuration of a tiny file, read the way the synchronous   *)
(* reader is built (arrow_reader/mod.rs:1195-1262): the configuration is   *)
(* chosen step by step (row groups, selection, predicates, offset, limit,  *)
(* batch size, policy), then each predicate refines the plan               *)
(* (with_predicate), offset and limit become selection operations          *)
(* (build_limited), the plan is trimmed and lowered to a cursor (build),   *)
(* and batches are produced one by one.  Invariants: the rows produced so  *)
(* far are a prefix of Expected(cfg), equal to it at the end; batches have *)
(* 1..bs rows; the row-group-at-a-time formulation agrees with Expected.   *)
(***************************************************************************)
EXTENDS ParquetScan, TLC

CONSTANTS RgRows,        \* row counts of the row groups of the file
          MaxPreds, Offsets, Limits, BatchSizes, Policies, Threshold, NullPreds

VARIABLES phase, cfg, policy, plan, k, cur, pos, out, blens
vars == <<phase, cfg, policy, plan, k, cur, pos, out, blens>>

N == NumRows(RgRows)
NG == Len(RgRows)
Masks(n, vals) == [1..n -> vals]
RgChoices == {s \in UNION {[1..m -> 0..(NG - 1)] : m \in 1..NG} : \A i, j \in 1..Len(s) : i # j => s[i] # s[j]}

Init == /\ phase = "rgs"
        /\ cfg = [rgs |-> <<>>, hasSel |-> FALSE, sel |-> <<>>, preds |-> <<>>, offset |-> -1, limit |-> -1, bs |-> 1]
        /\ policy = "Selectors" /\ plan = NoPlan /\ k = 1
        /\ cur = [kind |-> "none", runs |-> <<>>, bits |-> <<>>] /\ pos = 0 /\ out = <<>> /\ blens = <<>>

ChooseRowGroups == /\ phase = "rgs"
                   /\ \E s \in RgChoices : cfg' = [cfg EXCEPT !.rgs = s]
                   /\ phase' = "sel" /\ UNCHANGED <<policy, plan, k, cur, pos, out, blens>>

Chosen == ChosenIds(RgRows, cfg.rgs)

ChooseSelection == /\ phase = "sel"
                   /\ \/ UNCHANGED cfg
                      \/ \E m \in Masks(Len(Chosen), {0, 1}) : cfg' = [cfg EXCEPT !.hasSel = TRUE, !.sel = m]
                   /\ phase' = "preds" /\ UNCHANGED <<policy, plan, k, cur, pos, out, blens>>

AddPredicate == /\ phase = "preds" /\ Len(cfg.preds) < MaxPreds
                /\ \E m \in Masks(N, {0, 1}) \cup NullPreds : cfg' = [cfg EXCEPT !.preds = Append(@, m)]
                /\ UNCHANGED <<phase, policy, plan, k, cur, pos, out, blens>>

ChooseBudget == /\ phase = "preds"
                /\ \E o \in Offsets, l \in Limits, b \in BatchSizes, p \in Policies :
                      /\ cfg' = [cfg EXCEPT !.offset = o, !.limit = l, !.bs = b]
                      /\ policy' = p
                /\ plan' = IF cfg.hasSel THEN Plan(NF(cfg.sel)) ELSE NoPlan
                /\ phase' = "filter" /\ UNCHANGED <<k, cur, pos, out, blens>>

(* the loop over filter.predicates, with the early break                    *)
EvalPredicate == /\ phase = "filter" /\ k <= Len(cfg.preds) /\ SelectsAny(plan)
                 /\ plan' = WithPredicate(Chosen, plan, cfg.preds[k])
                 /\ k' = k + 1 /\ UNCHANGED <<phase, cfg, policy, cur, pos, out, blens>>

Build == /\ phase = "filter" /\ (k > Len(cfg.preds) \/ ~SelectsAny(plan))
         /\ LET p == BuildPlan(BuildLimited(plan, Len(Chosen), cfg.offset, cfg.limit))
                st == Strategy(p, policy, Threshold) IN
            /\ plan' = p
            /\ cur' = IF ~p.some THEN [kind |-> "All", runs |-> <<>>, bits |-> <<>>]
                      ELSE IF st = "Mask" THEN [kind |-> "Mask", runs |-> <<>>, bits |-> Bits(p.runs)]
                      ELSE [kind |-> "Selectors", runs |-> p.runs, bits |-> <<>>]
         /\ phase' = "read" /\ UNCHANGED <<cfg, policy, k, pos, out, blens>>

Emit(positions) == /\ out' = out \o [i \in 1..Len(positions) |-> Chosen[positions[i]]]
                   /\ blens' = Append(blens, Len(positions))

BS == Min2(cfg.bs, N)

NextBatchAll == /\ phase = "read" /\ cur.kind = "All" /\ pos < Len(Chosen)
                /\ LET n == Min2(BS, Len(Chosen) - pos) IN Emit([i \in 1..n |-> pos + i]) /\ pos' = pos + n
                /\ UNCHANGED <<phase, cfg, policy, plan, k, cur>>

NextBatchSelectors ==
  /\ phase = "read" /\ cur.kind = "Selectors"
  /\ LET r == SelectorsBatch(cur.runs, pos, Len(Chosen), BS) IN
     /\ r.got # <<>>
     /\ Emit(r.got) /\ pos' = r.pos /\ cur' = [cur EXCEPT !.runs = r.runs]
  /\ UNCHANGED <<phase, cfg, policy, plan, k>>

NextBatchMask ==
  /\ phase = "read" /\ cur.kind = "Mask"
  /\ LET r == MaskBatch(cur.bits, pos, BS) IN
     /\ r.got # <<>>
     /\ Emit(r.got) /\ pos' = r.pos
  /\ UNCHANGED <<phase, cfg, policy, plan, k, cur>>

Exhausted ==
  \/ cur.kind = "All" /\ pos >= Len(Chosen)
  \/ cur.kind = "Selectors" /\ SelectorsBatch(cur.runs, pos, Len(Chosen), BS).got = <<>>
  \/ cur.kind = "Mask" /\ MaskBatch(cur.bits, pos, BS).got = <<>>
Finish == /\ phase = "read" /\ Exhausted /\ phase' = "done"
          /\ UNCHANGED <<cfg, policy, plan, k, cur, pos, out, blens>>

Next == \/ ChooseRowGroups \/ ChooseSelection \/ AddPredicate \/ ChooseBudget \/ EvalPredicate \/ Build
        \/ NextBatchAll \/ NextBatchSelectors \/ NextBatchMask \/ Finish
Spec == Init /\ [][Next]_vars

IsPrefix(s, t) == Len(s) <= Len(t) /\ SubSeq(t, 1, Len(s)) = s

(* constants for the .cfg files (tuples cannot be written there)             *)
RgQuick == <<2, 1>>
NullQuick == {<<2, 1, 2>>}
RgThorough == <<2, 2>>
NullThorough == {<<2, 1, 2, 0>>}
OffQuick == {-1, 0, 1, 4}
OffThorough == {-1, 1, 3}
LimThorough == {-1, 0, 2}
LimAll == {-1, 0, 1, 2}

S1_Prefix == phase \in {"read", "done"} => IsPrefix(out, Expected(RgRows, cfg))
S1_Complete == phase = "done" => out = Expected(RgRows, cfg)
S2_Batches == \A i \in 1..Len(blens) : blens[i] >= 1 /\ blens[i] <= BS
S2_Done == phase = "done" => BatchesOk(blens, cfg.bs, N, Len(Expected(RgRows, cfg)))
(* the skip + read counts handed to the column readers never pass the rows   *)
S3_InBounds == pos <= Len(Chosen)
(* row group at a time with a carried budget = the global definition         *)
S4_ByGroup == phase = "filter" =>
   ExpectedByGroup(RgRows, cfg.rgs, cfg.sel, cfg.hasSel, cfg.preds, [offset |-> cfg.offset, limit |-> cfg.limit])
      = Expected(RgRows, cfg)
=============================================================================
