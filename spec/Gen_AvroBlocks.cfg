INIT GInit
NEXT GNext
CONSTANTS
  MaxItems = 2
CHECK_DEADLOCK FALSE
