----------------------------- MODULE JsonGrammar -----------------------------
(***************************************************************************)
(* C17: RFC 8259 as a recogniser + value extractor on character sequences, *)
(* and the writer's string-escape rule.                                    *)
(*                                                                         *)
(*   JSON-text = ws value ws                                               *)
(*   value     = false / null / true / object / array / number / string    *)
(*   object    = { ws [ member *( ws , ws member ) ] ws }                  *)
(*   member    = string ws : ws value                                      *)
(*   array     = [ ws [ value *( ws , ws value ) ] ws ]                    *)
(*   number    = [ - ] int [ frac ] [ exp ]     int = 0 / ( 1-9 *DIGIT )    *)
(*   string    = " *char "    char = unescaped / \ ( " \ / b f n r t uXXXX )*)
(*   unescaped = %x20-21 / %x23-5B / %x5D-10FFFF      ws = *( SP HT LF CR )*)
(*                                                                         *)
(* written from the RFC grammar (independent of the tape decoder of        *)
(* arrow-json).  A text is a sequence of code points.  A value is a record *)
(*   [k, s, kids, keys]   k in null true false num str arr obj             *)
(*   s     the lexeme of a number / the code points a string denotes       *)
(*   kids  the elements of an array / the member values of an object       *)
(*   keys  the member names of an object (code point sequences)            *)
(* (all four fields always present, so that values are comparable).        *)
(* \uXXXX escapes denote UTF-16 code units: a high surrogate must be       *)
(* followed by an escaped low surrogate and the pair denotes one code      *)
(* point; texts with an unpaired surrogate escape are syntactically JSON   *)
(* but denote no Unicode string (RFC 8259 section 8.2) - they are reported *)
(* with ok = FALSE like texts outside the grammar, and are not judged.     *)
(***************************************************************************)
EXTENDS Naturals, Sequences

CONSTANT DefectivePairs   \* FALSE: RFC 8259.  TRUE: surrogate pairs are combined as arrow-json's tape decoder does
                          \* (known finding C17-json-surrogate-pair-or); used by Trace_TextFormats only to
                          \* identify that finding precisely, never as the oracle

Node(k, s, kids, keys) == [k |-> k, s |-> s, kids |-> kids, keys |-> keys]
Lit(k) == Node(k, <<>>, <<>>, <<>>)
Num(lexeme) == Node("num", lexeme, <<>>, <<>>)
Str(cps) == Node("str", cps, <<>>, <<>>)
Arr(kids) == Node("arr", <<>>, kids, <<>>)
Obj(keys, kids) == Node("obj", <<>>, kids, keys)

QUOTE == 34     BSL == 92      SLASH == 47
LBRACK == 91    RBRACK == 93   LBRACE == 123   RBRACE == 125
COMMA == 44     COLON == 58    MINUS == 45     PLUS == 43     DOT == 46

IsWs(c) == c \in {32, 9, 10, 13}
IsDigit(c) == c >= 48 /\ c <= 57
HexVal(c) == IF c >= 48 /\ c <= 57 THEN c - 48
             ELSE IF c >= 65 /\ c <= 70 THEN c - 55
             ELSE IF c >= 97 /\ c <= 102 THEN c - 87 ELSE 16       \* 16: not a hex digit

At(t, i) == IF i >= 1 /\ i <= Len(t) THEN t[i] ELSE 0               \* 0: end of text (never a structural character)
Fail(i) == [ok |-> FALSE, v |-> Lit("null"), next |-> i]
Done(v, i) == [ok |-> TRUE, v |-> v, next |-> i]

RECURSIVE SkipWs(_, _)
SkipWs(t, i) == IF i <= Len(t) /\ IsWs(t[i]) THEN SkipWs(t, i + 1) ELSE i

(* the literal `word` at position i *)
IsAt(t, i, word) == i + Len(word) - 1 <= Len(t) /\ SubSeq(t, i, i + Len(word) - 1) = word

(* ----------------------------------------------------------------- number *)
RECURSIVE Digits(_, _)
Digits(t, i) == IF i <= Len(t) /\ IsDigit(t[i]) THEN Digits(t, i + 1) ELSE i      \* position after *DIGIT

(* position after the number that starts at i, or 0 *)
NumberEnd(t, i) ==
  LET i1 == IF At(t, i) = MINUS THEN i + 1 ELSE i
      i2 == IF At(t, i1) = 48 THEN i1 + 1
            ELSE IF IsDigit(At(t, i1)) THEN Digits(t, i1) ELSE 0
  IN IF i2 = 0 THEN 0
     ELSE LET i3 == IF At(t, i2) = DOT THEN (IF IsDigit(At(t, i2 + 1)) THEN Digits(t, i2 + 1) ELSE 0) ELSE i2
          IN IF i3 = 0 THEN 0
             ELSE IF At(t, i3) \in {101, 69}                                       \* e / E
                  THEN LET i4 == IF At(t, i3 + 1) \in {PLUS, MINUS} THEN i3 + 2 ELSE i3 + 1
                       IN IF IsDigit(At(t, i4)) THEN Digits(t, i4) ELSE 0
                  ELSE i3

Number(t, i) == LET e == NumberEnd(t, i) IN IF e = 0 THEN Fail(i) ELSE Done(Num(SubSeq(t, i, e - 1)), e)

(* ----------------------------------------------------------------- string *)
Hex4(t, i) ==      \* value of the four hex digits at i..i+3, or 65536
  IF i + 3 > Len(t) THEN 65536
  ELSE LET a == HexVal(t[i])  b == HexVal(t[i + 1])  c == HexVal(t[i + 2])  d == HexVal(t[i + 3])
       IN IF a = 16 \/ b = 16 \/ c = 16 \/ d = 16 THEN 65536 ELSE ((a * 16 + b) * 16 + c) * 16 + d

IsHigh(u) == u >= 55296 /\ u <= 56319       \* D800..DBFF
IsLow(u) == u >= 56320 /\ u <= 57343        \* DC00..DFFF
(* the code point a surrogate pair denotes: 0x10000 + (hi - 0xD800) * 0x400 + (lo - 0xDC00).          *)
(* The defective form is  ((hi - 0xD800) << 10) | ((lo - 0xDC00) + 0x10000)  (tape.rs:783): the `|`   *)
(* drops the 0x10000 whenever bit 6 of hi - 0xD800 is set, i.e. for every character of planes 2, 4, .. *)
PairValue(hi, lo) ==
  IF DefectivePairs /\ ((hi - 55296) \div 64) % 2 = 1
  THEN (hi - 55296) * 1024 + (lo - 56320)
  ELSE 65536 + (hi - 55296) * 1024 + (lo - 56320)

SimpleEscape(c) ==      \* the character denoted by \c, or 0
  CASE c = QUOTE -> QUOTE [] c = BSL -> BSL [] c = SLASH -> SLASH
    [] c = 98 -> 8 [] c = 102 -> 12 [] c = 110 -> 10 [] c = 114 -> 13 [] c = 116 -> 9
    [] OTHER -> 0

(* after the opening quote: [ok, s, next] *)
RECURSIVE Chars(_, _, _)
Chars(t, i, acc) ==
  IF i > Len(t) THEN [ok |-> FALSE, s |-> acc, next |-> i]
  ELSE LET c == t[i] IN
    IF c = QUOTE THEN [ok |-> TRUE, s |-> acc, next |-> i + 1]
    ELSE IF c < 32 THEN [ok |-> FALSE, s |-> acc, next |-> i]                      \* control characters must be escaped
    ELSE IF c # BSL THEN Chars(t, i + 1, Append(acc, c))
    ELSE IF At(t, i + 1) = 117 THEN                                                \* \uXXXX
           LET u == Hex4(t, i + 2) IN
           IF u = 65536 THEN [ok |-> FALSE, s |-> acc, next |-> i]
           ELSE IF IsHigh(u) THEN
                  LET lo == IF At(t, i + 6) = BSL /\ At(t, i + 7) = 117 THEN Hex4(t, i + 8) ELSE 65536 IN
                  IF lo # 65536 /\ IsLow(lo)
                  THEN Chars(t, i + 12, Append(acc, PairValue(u, lo)))
                  ELSE [ok |-> FALSE, s |-> acc, next |-> i]                       \* unpaired surrogate
           ELSE IF IsLow(u) THEN [ok |-> FALSE, s |-> acc, next |-> i]             \* unpaired surrogate
           ELSE Chars(t, i + 6, Append(acc, u))
    ELSE LET e == SimpleEscape(At(t, i + 1)) IN
         IF e = 0 THEN [ok |-> FALSE, s |-> acc, next |-> i] ELSE Chars(t, i + 2, Append(acc, e))

String(t, i) == LET r == Chars(t, i + 1, <<>>) IN IF r.ok THEN Done(Str(r.s), r.next) ELSE Fail(r.next)

(* ------------------------------------------------------------------ value *)
RECURSIVE Value(_, _), Elements(_, _, _), Members(_, _, _, _)

Value(t, i) ==
  LET c == At(t, i) IN
  IF c = QUOTE THEN String(t, i)
  ELSE IF c = MINUS \/ IsDigit(c) THEN Number(t, i)
  ELSE IF c = LBRACK THEN
         LET j == SkipWs(t, i + 1) IN
         IF At(t, j) = RBRACK THEN Done(Arr(<<>>), j + 1) ELSE Elements(t, j, <<>>)
  ELSE IF c = LBRACE THEN
         LET j == SkipWs(t, i + 1) IN
         IF At(t, j) = RBRACE THEN Done(Obj(<<>>, <<>>), j + 1) ELSE Members(t, j, <<>>, <<>>)
  ELSE IF IsAt(t, i, <<110, 117, 108, 108>>) THEN Done(Lit("null"), i + 4)
  ELSE IF IsAt(t, i, <<116, 114, 117, 101>>) THEN Done(Lit("true"), i + 4)
  ELSE IF IsAt(t, i, <<102, 97, 108, 115, 101>>) THEN Done(Lit("false"), i + 5)
  ELSE Fail(i)

(* value *( ws , ws value ) ws ]   with i at the first value *)
Elements(t, i, acc) ==
  LET r == Value(t, i) IN
  IF ~r.ok THEN r
  ELSE LET j == SkipWs(t, r.next)  kids == Append(acc, r.v) IN
       IF At(t, j) = COMMA THEN Elements(t, SkipWs(t, j + 1), kids)
       ELSE IF At(t, j) = RBRACK THEN Done(Arr(kids), j + 1)
       ELSE Fail(j)

(* member *( ws , ws member ) ws }   with i at the first member *)
Members(t, i, keys, kids) ==
  IF At(t, i) # QUOTE THEN Fail(i)
  ELSE LET k == String(t, i) IN
       IF ~k.ok THEN k
       ELSE LET j == SkipWs(t, k.next) IN
            IF At(t, j) # COLON THEN Fail(j)
            ELSE LET r == Value(t, SkipWs(t, j + 1)) IN
                 IF ~r.ok THEN r
                 ELSE LET j2 == SkipWs(t, r.next)
                          ks == Append(keys, k.v.s)
                          vs == Append(kids, r.v)
                      IN IF At(t, j2) = COMMA THEN Members(t, SkipWs(t, j2 + 1), ks, vs)
                         ELSE IF At(t, j2) = RBRACE THEN Done(Obj(ks, vs), j2 + 1)
                         ELSE Fail(j2)

(* JSON-text = ws value ws : [ok, v] *)
Parse(t) ==
  LET r == Value(t, SkipWs(t, 1)) IN
  IF r.ok /\ SkipWs(t, r.next) = Len(t) + 1 THEN [ok |-> TRUE, v |-> r.v] ELSE [ok |-> FALSE, v |-> Lit("null")]

(* a sequence of JSON texts separated by white space (line-delimited JSON):  *)
(* ws [ value *( 1*ws value ) ] ws : [ok, vs]                                 *)
RECURSIVE Stream(_, _, _)
Stream(t, i, acc) ==
  LET j == SkipWs(t, i) IN
  IF j > Len(t) THEN [ok |-> TRUE, vs |-> acc]
  ELSE IF acc # <<>> /\ j = i THEN [ok |-> FALSE, vs |-> acc]              \* two values must be separated
  ELSE LET r == Value(t, j) IN
       IF ~r.ok THEN [ok |-> FALSE, vs |-> acc] ELSE Stream(t, r.next, Append(acc, r.v))
ParseStream(t) == Stream(t, 1, <<>>)

(* ------------------------------------------------------------- the writer *)
HexDigit(n) == IF n < 10 THEN 48 + n ELSE 87 + n                             \* lower case
(* string escape rule: quote, backslash and the control characters are       *)
(* escaped (short forms where they exist), everything else is written as is *)
EscapeChar(c) ==
  CASE c = QUOTE -> <<BSL, QUOTE>> [] c = BSL -> <<BSL, BSL>>
    [] c = 8 -> <<BSL, 98>> [] c = 12 -> <<BSL, 102>> [] c = 10 -> <<BSL, 110>>
    [] c = 13 -> <<BSL, 114>> [] c = 9 -> <<BSL, 116>>
    [] c < 32 /\ c \notin {8, 9, 10, 12, 13} -> <<BSL, 117, 48, 48, HexDigit(c \div 16), HexDigit(c % 16)>>
    [] OTHER -> <<c>>
RECURSIVE EscapeAll(_)
EscapeAll(s) == IF s = <<>> THEN <<>> ELSE EscapeChar(Head(s)) \o EscapeAll(Tail(s))
WriteString(s) == <<QUOTE>> \o EscapeAll(s) \o <<QUOTE>>

RECURSIVE Write(_), WriteKids(_, _), WriteMembers(_, _)
Write(v) ==
  CASE v.k = "null" -> <<110, 117, 108, 108>>
    [] v.k = "true" -> <<116, 114, 117, 101>>
    [] v.k = "false" -> <<102, 97, 108, 115, 101>>
    [] v.k = "num" -> v.s
    [] v.k = "str" -> WriteString(v.s)
    [] v.k = "arr" -> <<LBRACK>> \o WriteKids(v.kids, 1) \o <<RBRACK>>
    [] v.k = "obj" -> <<LBRACE>> \o WriteMembers(v, 1) \o <<RBRACE>>
WriteKids(kids, i) ==
  IF i > Len(kids) THEN <<>>
  ELSE (IF i > 1 THEN <<COMMA>> ELSE <<>>) \o Write(kids[i]) \o WriteKids(kids, i + 1)
WriteMembers(v, i) ==
  IF i > Len(v.kids) THEN <<>>
  ELSE (IF i > 1 THEN <<COMMA>> ELSE <<>>) \o WriteString(v.keys[i]) \o <<COLON>> \o Write(v.kids[i]) \o WriteMembers(v, i + 1)

(* line-delimited and array framing of a sequence of rows *)
RECURSIVE WriteLines(_)
WriteLines(vs) == IF vs = <<>> THEN <<>> ELSE Write(Head(vs)) \o <<10>> \o WriteLines(Tail(vs))

(* well-formed values: number lexemes are numbers, strings are sequences of  *)
(* Unicode scalar values                                                     *)
IsScalar(c) == c >= 0 /\ c <= 1114111 /\ ~(c >= 55296 /\ c <= 57343)
IsScalars(s) == \A i \in 1..Len(s) : IsScalar(s[i])
RECURSIVE WF(_)
WF(v) ==
  CASE v.k \in {"null", "true", "false"} -> v = Lit(v.k)
    [] v.k = "num" -> v.kids = <<>> /\ v.keys = <<>> /\ v.s # <<>> /\ NumberEnd(v.s, 1) = Len(v.s) + 1
    [] v.k = "str" -> v.kids = <<>> /\ v.keys = <<>> /\ IsScalars(v.s)
    [] v.k = "arr" -> v.s = <<>> /\ v.keys = <<>> /\ \A i \in 1..Len(v.kids) : WF(v.kids[i])
    [] v.k = "obj" -> v.s = <<>> /\ Len(v.keys) = Len(v.kids)
                      /\ (\A i \in 1..Len(v.keys) : IsScalars(v.keys[i])) /\ \A i \in 1..Len(v.kids) : WF(v.kids[i])
    [] OTHER -> FALSE

(* THEOREM  WF(v) => Parse(Write(v)) = [ok |-> TRUE, v |-> v]                 *)
RoundTrip(v) == WF(v) => Parse(Write(v)) = [ok |-> TRUE, v |-> v]
=============================================================================
