------------------------------- MODULE FaultIO -------------------------------
(***************************************************************************)
(* C18 - the two abstract machines behind the properties of FaultOps.tla.  *)
(*                                                                         *)
(* (a) A writer session over a fault-injecting sink.  The fault-free       *)
(* output is the byte sequence 1..Total (a byte is identified by its       *)
(* position).  An API script is a sequence of calls [n, fl]: the call      *)
(* hands its n bytes to the write path with write_all semantics and, if    *)
(* fl, flushes; the last call is the terminating one (finish / close /     *)
(* into_inner).  The write path is std's BufWriter of capacity `cap`       *)
(* (0 = unbuffered): bytes may sit in the buffer, so a sink failure can    *)
(* surface at a later API call.  write_all: Interrupted is retried, Ok(0)  *)
(* is an error (WriteZero), a short count continues with the rest.  After  *)
(* the first failed call the caller issues no further data call, only the  *)
(* terminating one (driver protocol), and retries a failed terminating     *)
(* call twice; a retried terminating call does not emit again what it has  *)
(* already handed to the write path.  One step = at most one sink call.    *)
(*                                                                         *)
(* (b) A reader over a source that is cut at `cut` bytes and / or fails at *)
(* call k.  A file is a sequence of frames (header h, body b bytes, one    *)
(* batch each); footer = 0: self-delimiting (frames are read in order; end *)
(* of input at a frame boundary is the end of data, anywhere else an       *)
(* error); footer > 0: the reader seeks to the footer first, validates it  *)
(* (only the complete file has a valid one: magic / length checks), then   *)
(* seeks to and reads each frame.  Reads have read_exact semantics.  A     *)
(* batch is emitted only when its whole frame was consumed - which is why  *)
(* the emitted batches are always a prefix of the written ones (T2).       *)
(*                                                                         *)
(* `dev` is the fault-injecting device of FaultOps (step function);  `log` *)
(* is a history variable, the call log a harness would record: I_DevLog    *)
(* ties the closed-form reading of a log used by Trace_FaultIO to `dev`.   *)
(***************************************************************************)
EXTENDS FaultOps, TLC

CONSTANTS Scripts,    \* API scripts: sequences of [n |-> 0..3, fl |-> BOOLEAN]
          Caps,       \* BufWriter capacities, 0 = unbuffered
          Files,      \* [frames |-> Seq([h, b]), footer |-> Nat]
          MaxK,       \* fault indices 0..MaxK (0 = no fault)
          Lossy,      \* TRUE: a defective writer that ignores the count returned by write (negative test)
          Forgetful   \* TRUE: a defective writer whose terminating call, retried after a failure, does
                      \*       nothing and reports success ("finished" was set before the write; negative test)

VARIABLES mode,                              \* "w" | "r"
          plan, dev, calls, log,             \* fault plan, device state (FaultOps), calls made, call log
          \* writer
          script, cap, ai, phase, out, buf, acc, res, at, fin,
          \* reader
          file, cut, pos, stage, fi, need, emitted, outcome

vars == <<mode, plan, dev, calls, log, script, cap, ai, phase, out, buf, acc, res, at, fin,
          file, cut, pos, stage, fi, need, emitted, outcome>>
wvars == <<script, cap, ai, phase, out, buf, acc, res, at, fin>>
rvars == <<file, cut, pos, stage, fi, need, emitted, outcome>>

RECURSIVE Sum(_, _)
Sum(s, i) == IF i = 0 THEN 0 ELSE s[i].n + Sum(s, i - 1)
Total(s) == Sum(s, Len(s))
Ids(a, b) == [i \in 1..(b - a) |-> a + i]            \* bytes a+1 .. b
Min(a, b) == IF a < b THEN a ELSE b
Full(s) == Ids(0, Total(s))

WriterKinds == {"error", "error_once", "short", "interrupted", "zero"}
ReaderKinds == {"error", "error_once", "short", "interrupted"}

(* the terminating call: attempts completed, and whether its bytes were all   *)
(* handed to the write path (buffer or sink) - a retry must not emit them     *)
(* again.  The caller retries a failed terminating call twice.                *)
NoFin == [tries |-> 0, handed |-> FALSE]
MaxTries == 3

WIdle == /\ script = <<>> /\ cap = 0 /\ ai = 0 /\ phase = "off" /\ out = <<>> /\ buf = <<>>
         /\ acc = <<>> /\ res = <<>> /\ at = <<>> /\ fin = NoFin
RIdle == /\ file = [frames |-> <<>>, footer |-> 0] /\ cut = 0 /\ pos = 0 /\ stage = "off" /\ fi = 0
         /\ need = 0 /\ emitted = <<>> /\ outcome = "off"

Plans(kinds) == {[k |-> 0, kind |-> "none"]} \cup {[k |-> k, kind |-> kd] : k \in 1..MaxK, kd \in kinds}

FrameLen(f) == f.h + f.b
RECURSIVE FramesLen(_, _)
FramesLen(fs, i) == IF i = 0 THEN 0 ELSE FrameLen(fs[i]) + FramesLen(fs, i - 1)
FileLen(f) == FramesLen(f.frames, Len(f.frames)) + f.footer
FrameStart(f, i) == FramesLen(f.frames, i - 1)

NoLog == [ops |-> <<>>, lens |-> <<>>, rets |-> <<>>]
Logged(op, len, ret) == [ops |-> Append(log.ops, op), lens |-> Append(log.lens, len), rets |-> Append(log.rets, ret)]

Init ==
  /\ dev = DevInit /\ calls = 0 /\ log = NoLog
  /\ \/ /\ mode = "w" /\ RIdle
        /\ plan \in Plans(WriterKinds)
        /\ script \in Scripts /\ cap \in Caps
        /\ ai = 0 /\ phase = "idle" /\ out = <<>> /\ buf = <<>> /\ acc = <<>> /\ res = <<>> /\ at = <<>> /\ fin = NoFin
     \/ /\ mode = "r" /\ WIdle
        /\ plan \in Plans(ReaderKinds)
        /\ file \in Files
        /\ cut \in 0..FileLen(file)
        /\ pos = 0 /\ fi = 1 /\ need = 0 /\ emitted = <<>> /\ outcome = "run"
        /\ stage = IF file.footer > 0 THEN "seek_footer" ELSE "header"

(* ------------------------------------------------------------ the writer *)
Last == Len(script)

(* the API call ai returns r                                                 *)
Return(r) ==
  /\ res' = Append(res, r)
  /\ at' = Append(at, calls')
  /\ out' = <<>>
  /\ fin' = [tries   |-> IF ai = Last THEN fin.tries + 1 ELSE fin.tries,
             handed  |-> fin.handed \/ (ai = Last /\ out = <<>>)]
  /\ phase' = IF ai = Last /\ (r = "ok" \/ fin.tries + 1 = MaxTries) THEN "done" ELSE "idle"

WCall ==
  /\ mode = "w" /\ phase = "idle"
  /\ LET failed == \E i \in DOMAIN res : res[i] = "err"
         nxt == IF failed THEN Last ELSE ai + 1 IN
     /\ ai' = nxt
     /\ IF Forgetful /\ ai = Last /\ fin.tries > 0
        THEN \* the defect: the retried terminating call believes it has finished
             /\ calls' = calls /\ Return("ok")
        ELSE /\ out' = IF nxt = Last /\ fin.handed THEN <<>> ELSE Ids(Sum(script, nxt - 1), Sum(script, nxt))
             /\ phase' = "emit"
             /\ UNCHANGED <<calls, res, at, fin>>
  /\ UNCHANGED <<mode, plan, dev, log, script, cap, buf, acc>> /\ UNCHANGED rvars

(* one sink write of `data`; `src` tells which of buf / out it came from      *)
SinkWrite(data, src) ==
  \E ret \in SinkAnswers(plan, dev.dead, calls + 1, OpXfer, Len(data)) :
    /\ calls' = calls + 1
    /\ dev' = DevStep(plan, dev, calls + 1, OpXfer, Len(data), ret)
    /\ log' = Logged(OpXfer, Len(data), ret)
    /\ LET taken == IF ret > 0 THEN ret ELSE 0
           \* the defective writer believes the whole buffer was written
           gone == IF Lossy /\ ret > 0 THEN Len(data) ELSE taken IN
       /\ acc' = acc \o SubSeq(data, 1, taken)
       /\ IF ret = RetErr \/ ret = 0
          THEN /\ Return("err") /\ UNCHANGED buf
          ELSE /\ IF src = "buf"
                  THEN buf' = SubSeq(data, gone + 1, Len(data)) /\ UNCHANGED out
                  ELSE out' = SubSeq(data, gone + 1, Len(data)) /\ UNCHANGED buf
               /\ UNCHANGED <<res, at, phase, fin>>

(* BufWriter::write: make room, then either pass a large write through or    *)
(* copy into the buffer                                                      *)
WSpill ==
  /\ mode = "w" /\ phase = "emit" /\ out # <<>>
  /\ buf # <<>> /\ Len(buf) + Len(out) > cap
  /\ SinkWrite(buf, "buf")
  /\ UNCHANGED <<mode, plan, script, cap, ai>> /\ UNCHANGED rvars

WDirect ==
  /\ mode = "w" /\ phase = "emit" /\ out # <<>>
  /\ buf = <<>> /\ Len(out) >= cap
  /\ SinkWrite(out, "out")
  /\ UNCHANGED <<mode, plan, script, cap, ai>> /\ UNCHANGED rvars

WToBuf ==
  /\ mode = "w" /\ phase = "emit" /\ out # <<>>
  /\ Len(buf) + Len(out) <= cap /\ Len(out) < cap
  /\ buf' = buf \o out /\ out' = <<>>
  /\ UNCHANGED <<mode, plan, dev, calls, log, script, cap, ai, phase, acc, res, at, fin>> /\ UNCHANGED rvars

(* all bytes of the call are on their way: flush or return                   *)
WEmitted ==
  /\ mode = "w" /\ phase = "emit" /\ out = <<>>
  /\ IF script[ai].fl
     THEN phase' = "drain" /\ UNCHANGED <<calls, res, at, out, fin>>
     ELSE calls' = calls /\ Return("ok")
  /\ UNCHANGED <<mode, plan, dev, log, script, cap, ai, buf, acc>> /\ UNCHANGED rvars

(* BufWriter::flush: flush_buf ...                                           *)
WDrain ==
  /\ mode = "w" /\ phase = "drain" /\ buf # <<>>
  /\ SinkWrite(buf, "buf")
  /\ UNCHANGED <<mode, plan, script, cap, ai>> /\ UNCHANGED rvars

(* ... then the sink's own flush; an Interrupted flush is reported (std)     *)
WFlush ==
  /\ mode = "w" /\ phase = "drain" /\ buf = <<>>
  /\ \E ret \in SinkAnswers(plan, dev.dead, calls + 1, OpSync, 0) :
       /\ calls' = calls + 1
       /\ dev' = DevStep(plan, dev, calls + 1, OpSync, 0, ret)
       /\ log' = Logged(OpSync, 0, ret)
       /\ Return(IF ret = 0 THEN "ok" ELSE "err")
  /\ UNCHANGED <<mode, plan, script, cap, ai, buf, acc>> /\ UNCHANGED rvars

WNext == WCall \/ WSpill \/ WDirect \/ WToBuf \/ WEmitted \/ WDrain \/ WFlush

WSummary ==
  [class |-> FaultClass(plan, dev), redundant |-> dev.redundant, k |-> plan.k,
   res |-> res, at |-> at,
   term |-> [i \in 1..Len(res) |-> IF i > Len(res) - fin.tries THEN 1 ELSE 0],
   prefix |-> IsPrefix(acc, Full(script)), complete |-> acc = Full(script),
   nomissing |-> Len(acc) >= Total(script), rbnone |-> TRUE, rbsame |-> FALSE]

(* ------------------------------------------------------------ the reader *)
NFrames == Len(file.frames)
Stop(o) == outcome' = o /\ stage' = "done"

(* one source call answering a read of `need` bytes at pos (read_exact loop) *)
(* `clean`: end of input here is the end of data, not an error               *)
ReadStep(clean, whenDone) ==
  \E ret \in SrcAnswers(plan, dev.dead, calls + 1, OpXfer, need, cut - pos) :
    /\ calls' = calls + 1
    \* the device sees the transferable length: min(need, bytes left)
    /\ dev' = DevStep(plan, dev, calls + 1, OpXfer, Min(need, cut - pos), ret)
    /\ log' = Logged(OpXfer, Min(need, cut - pos), ret)
    /\ IF ret = RetErr THEN Stop("err") /\ UNCHANGED <<pos, need, fi, emitted>>
       ELSE IF ret = RetIntr THEN UNCHANGED <<pos, need, fi, emitted, stage, outcome>>
       ELSE IF ret = 0 THEN /\ Stop(IF clean THEN "ok" ELSE "err")
                            /\ UNCHANGED <<pos, need, fi, emitted>>
       ELSE /\ pos' = pos + ret
            /\ IF ret = need THEN whenDone
               ELSE need' = need - ret /\ UNCHANGED <<fi, emitted, stage, outcome>>

SeekStep(target, then) ==
  \E ret \in SrcAnswers(plan, dev.dead, calls + 1, OpSync, 0, 0) :
    /\ calls' = calls + 1
    /\ dev' = DevStep(plan, dev, calls + 1, OpSync, 0, ret)
    /\ log' = Logged(OpSync, 0, ret)
    /\ IF ret # 0 THEN Stop("err") /\ UNCHANGED <<pos, need, fi, emitted>>
       ELSE pos' = target /\ then

(* self-delimiting: header, then body, then the batch                        *)
RHeader ==
  /\ mode = "r" /\ stage = "header" /\ file.footer = 0
  /\ IF fi > NFrames
     THEN \* past the last frame: one more read finds the end of input
          /\ need' = 1 /\ stage' = "probe"
          /\ UNCHANGED <<dev, calls, log, pos, fi, emitted, outcome>>
     ELSE /\ need' = file.frames[fi].h /\ stage' = "in_header"
          /\ UNCHANGED <<dev, calls, log, pos, fi, emitted, outcome>>
  /\ UNCHANGED <<mode, plan, file, cut>> /\ UNCHANGED wvars

RProbe ==
  /\ mode = "r" /\ stage = "probe"
  /\ ReadStep(TRUE, Stop("err") /\ UNCHANGED <<need, fi, emitted>>)   \* trailing bytes cannot exist: pos = FileLen
  /\ UNCHANGED <<mode, plan, file, cut>> /\ UNCHANGED wvars

RInHeader ==
  /\ mode = "r" /\ stage = "in_header"
  /\ ReadStep(need = file.frames[fi].h,
              /\ need' = file.frames[fi].b /\ stage' = "in_body"
              /\ UNCHANGED <<fi, emitted, outcome>>)
  /\ UNCHANGED <<mode, plan, file, cut>> /\ UNCHANGED wvars

Emit == /\ emitted' = Append(emitted, fi) /\ fi' = fi + 1

RInBody ==
  /\ mode = "r" /\ stage = "in_body"
  /\ ReadStep(FALSE,
              /\ Emit /\ need' = 0 /\ UNCHANGED outcome
              /\ stage' = IF file.footer = 0 THEN "header" ELSE "seek_frame")
  /\ UNCHANGED <<mode, plan, file, cut>> /\ UNCHANGED wvars

(* footer based: locate and validate the footer, then fetch every frame      *)
RSeekFooter ==
  /\ mode = "r" /\ stage = "seek_footer"
  /\ IF cut < file.footer
     THEN /\ Stop("err") /\ UNCHANGED <<dev, calls, log, pos, need, fi, emitted>>     \* too small to hold a footer
     ELSE SeekStep(cut - file.footer,
                   /\ need' = file.footer /\ stage' = "in_footer"
                   /\ UNCHANGED <<fi, emitted, outcome>>)
  /\ UNCHANGED <<mode, plan, file, cut>> /\ UNCHANGED wvars

RInFooter ==
  /\ mode = "r" /\ stage = "in_footer"
  /\ ReadStep(FALSE,
              IF cut = FileLen(file)
              THEN /\ stage' = "seek_frame" /\ need' = 0 /\ UNCHANGED <<fi, emitted, outcome>>
              ELSE /\ Stop("err") /\ UNCHANGED <<need, fi, emitted>>)            \* not a footer: rejected
  /\ UNCHANGED <<mode, plan, file, cut>> /\ UNCHANGED wvars

RSeekFrame ==
  /\ mode = "r" /\ stage = "seek_frame" /\ file.footer > 0
  /\ IF fi > NFrames
     THEN /\ Stop("ok") /\ UNCHANGED <<dev, calls, log, pos, need, fi, emitted>>
     ELSE SeekStep(FrameStart(file, fi),
                   /\ need' = FrameLen(file.frames[fi]) /\ stage' = "in_body"
                   /\ UNCHANGED <<fi, emitted, outcome>>)
  /\ UNCHANGED <<mode, plan, file, cut>> /\ UNCHANGED wvars

RNext == RHeader \/ RProbe \/ RInHeader \/ RInBody \/ RSeekFooter \/ RInFooter \/ RSeekFrame

(* a finished session stutters: every other state must have a successor      *)
(* (CHECK_DEADLOCK: no session gets stuck = no hang)                          *)
Finished == /\ \/ (mode = "w" /\ phase = "done") \/ (mode = "r" /\ stage = "done")
            /\ UNCHANGED vars

Next == WNext \/ RNext \/ Finished
Spec == Init /\ [][Next]_vars

(* ------------------------------------------------------------ properties *)
WDone == mode = "w" /\ phase = "done"
RDone == mode = "r" /\ stage = "done"
AllBatches == [i \in 1..NFrames |-> i]

TypeOK ==
  /\ mode \in {"w", "r"} /\ plan.kind \in Kinds /\ calls \in Nat
  /\ \A i \in DOMAIN res : res[i] \in {"ok", "err"}
  /\ Len(res) = Len(at)
  /\ outcome \in {"off", "run", "ok", "err"}

(* W3 holds in every state, the others when the session is over              *)
I_W3 == mode = "w" => W3(WSummary)
I_Writer == WDone => WriterOk(WSummary)
(* the buffer never exceeds its capacity and holds the bytes right after acc *)
I_Buffer == mode = "w" => Len(buf) <= cap
(* the device state kept step by step is the one FaultOps reads off the call *)
(* log in closed form (the form used to validate recorded sessions), and the *)
(* logged answers are legal ones                                             *)
I_DevLog == /\ dev = LogState(plan, log.ops, log.lens, log.rets)
            /\ Len(log.ops) = calls
            /\ IF mode = "w" THEN SinkLogLegal(plan, log.ops, log.lens, log.rets)
                             ELSE SrcLogLegal(plan, log.ops, log.lens, log.rets)

(* T2 in every state; T1 / T3 at the end                                     *)
I_T2 == mode = "r" => IsPrefix(emitted, AllBatches)
I_T1 == (RDone /\ file.footer > 0 /\ cut < FileLen(file)) => (outcome = "err" /\ emitted = <<>>)
I_T3 == (RDone /\ cut = FileLen(file)) =>
           ReadOk(ReaderClass(plan, dev), outcome, <<emitted>>, <<AllBatches>>)
(* a cut source, whatever else happens: CutOk on the batch level             *)
I_Cut == RDone => /\ outcome \in {"ok", "err"}
                  /\ (outcome = "ok" /\ file.footer = 0 /\ plan.kind = "none") =>
                        \* end of data was reported: the cut was at a frame boundary
                        \E i \in 0..NFrames : cut = FrameStart(file, i + 1) /\ Len(emitted) = i
=============================================================================
