---------------------------- MODULE Trace_Select ----------------------------
(* impl -> spec: every recorded call of a selection kernel must return what *)
(* Select.tla defines (C03); `realise` events bind the layout mutators.     *)
EXTENDS Select, TraceBase

VARIABLE l

(* Tokens that denote a null row of the event's data type: "~" for every type *)
(* with a validity bitmap; a union has no top-level validity, its null rows    *)
(* are the null rows of any of its variants ("u<id>:~"), which are identified  *)
(* with each other here (which variant carries a produced null is free).       *)
NT(ev) == {ev.nulltoks[i] : i \in 1..Len(ev.nulltoks)}
Nrm(ev, seq) == [i \in 1..Len(seq) |-> IF seq[i] \in NT(ev) THEN NullTok ELSE seq[i]]
NrmAll(ev, cols) == [c \in 1..Len(cols) |-> Nrm(ev, cols[c])]

Expected(ev) ==
  CASE ev.op = "filter"     -> Filter(Nrm(ev, ev.rows), ev.mask)
    [] ev.op = "take"       -> Take(Nrm(ev, ev.rows), ev.idx)
    [] ev.op = "concat"     -> Ok(ConcatAll(NrmAll(ev, ev.cols)))
    [] ev.op = "interleave" -> Interleave(NrmAll(ev, ev.cols), ev.pairs)
    [] ev.op = "zip"        -> Zip(ev.mask, Nrm(ev, ev.a), ev.as, Nrm(ev, ev.b), ev.bs)
    [] ev.op = "nullif"     -> NullIf(Nrm(ev, ev.rows), ev.mask)
    [] ev.op = "shift"      -> Shift(Nrm(ev, ev.rows), ev.k)
    [] ev.op = "slice"      -> Slice(Nrm(ev, ev.rows), ev.o, ev.n)
    [] ev.op = "merge"      -> Ok(MergeFrom(NrmAll(ev, ev.cols), ev.idx, 1, [c \in 1..Len(ev.cols) |-> 0]))
    [] ev.op = "dictgc"     -> Ok(Nrm(ev, ev.rows))
    [] ev.op = "realise"    -> Ok(Nrm(ev, ev.rows))
    [] ev.op = "count"      -> Ok(<<CountSel(ev.mask)>>)

(***************************************************************************)
(* Known findings (known_findings.txt): identified by kernel, type family  *)
(* and the exact shape of the wrong result, so that any other deviation of *)
(* the same kernel is still rejected.                                      *)
(***************************************************************************)
HasNullIdx(ev) == \E j \in 1..Len(ev.idx) : ev.idx[j] = -1
NonNullAgree(ev) ==    \* take: every non-null index position is right
  /\ Len(ev.out) = Len(ev.idx)
  /\ \A j \in 1..Len(ev.idx) : ev.idx[j] # -1 => Nrm(ev, ev.out)[j] = Nrm(ev, ev.rows)[ev.idx[j] + 1]

KF(ev) ==
  CASE ev.op = "nullif" /\ ev.fam \in {"union", "ree"} /\ ~ev.err /\ Nrm(ev, ev.out) = Nrm(ev, ev.rows)
         -> "C03-nullif-no-validity-type"
    [] ev.op = "take" /\ ev.fam \in {"ree", "union"} /\ ~ev.err /\ HasNullIdx(ev) /\ NonNullAgree(ev)
         -> "C03-take-no-validity-null-index"
    [] ev.op = "take" /\ ev.fam \in {"ree", "union"} /\ ev.err /\ HasNullIdx(ev) /\ ~Take(ev.rows, ev.idx).err
         -> "C03-take-no-validity-null-index"   \* same cause: the value under the null slot is out of range
    [] ev.op \in {"filter", "take", "interleave"} /\ ev.zw /\ ~ev.err /\ ev.out = <<>>
         -> "C03-zero-width-length-lost"
    [] ev.op = "zip" /\ ev.fam = "view" /\ ev.as /\ ev.bs /\ ev.a_nbuf > 0 /\ ev.b_nbuf > 0 /\ ev.b_inline /\ ~ev.err /\ Len(ev.out) = Len(ev.mask)
       /\ (\A i \in 1..Len(ev.mask) : ev.mask[i] = 1 => Nrm(ev, ev.out)[i] = Nrm(ev, ev.a)[1])
         -> "C03-zip-view-scalars-inline-falsy-corrupted"   \* only rows taken from the falsy scalar are wrong
    [] ev.op = "concat" /\ ev.fam = "ree" /\ ev.err /\ Len(ev.cols) >= 2
       /\ (\A c \in 1..Len(ev.cols) : ev.cols[c] = <<>>)
         -> "C03-concat-all-empty-run-arrays"
    [] OTHER -> ""

Init == l = 1
Next == /\ l <= Len(Rec)
        /\ l' = l + 1
        /\ LET ev == Rec[l] IN JudgeKF(Agrees(Expected(ev), ev.err, Nrm(ev, ev.out)), l, ev.op, KF(ev))
Spec == Init /\ [][Next]_l
=============================================================================
