----------------------------- MODULE MC_AvroSoe -----------------------------
(* Exhaustive model of the Avro single-object / Confluent push Decoder:    *)
(* streams of up to MaxRecs framed records of two writer schemas           *)
(* (1: {long, string}, 2: {long}; 3 = a fingerprint missing from the        *)
(* schema store), 1- and 2-byte varints, strings of 0..2 bytes, optionally  *)
(* one corrupted magic byte, every prefix (truncation), at most MaxBytes    *)
(* bytes, EVERY chunking (with and without empty chunks), batch sizes       *)
(* BatchSizes.  Faithful = FALSE: the row decoder is atomic (the intended   *)
(* contract: a body that straddles chunks is simply completed later).       *)
(* Faithful = TRUE transcribes what RecordDecoder::decode does on an        *)
(* incomplete body (DESIGN 5.1); MC_AvroSoe_faithful.cfg shows TLC          *)
(* re-deriving the finding as a violation of I_ChunkIndependent.            *)
EXTENDS AvroFraming, TLC

CONSTANTS MaxRecs, MaxBytes, BatchSizes, Faithful, Widths, Lens, Empties

Schemas == <<<<"long", "string">>, <<"long">>>>
Prefix(id) == [x \in 1..G |-> Byte("g", x, 0)] \o [x \in 1..F |-> Byte("f", x, id)]
LongBytes(w) == IF w = 1 THEN <<Byte("v", 0, 2)>> ELSE <<Byte("v", 1, 2), Byte("v", 0, 1)>>
StrBytes(len) == Enc(len, FALSE) \o [x \in 1..len |-> Byte("t", x, 0)]
(* a record shape: schema id, width of the long, length of the string (schema 1 only) *)
Shapes == [sch : {1}, w : Widths, len : Lens] \cup [sch : {2}, w : {1, 2}, len : {0}] \cup [sch : {3}, w : {1}, len : {0}]
Body(sh) == LongBytes(sh.w) \o (IF sh.sch = 1 THEN StrBytes(sh.len) ELSE <<>>)
RecBytes(sh) == Prefix(sh.sch) \o Body(sh)
RECURSIVE AllBytes(_, _)
AllBytes(recs, j) == IF j > Len(recs) THEN <<>> ELSE RecBytes(recs[j]) \o AllBytes(recs, j + 1)
(* absolute position of the first body byte of record j -> j *)
StartOf(recs, j) == Len(AllBytes(SubSeq(recs, 1, j - 1), 1)) + G + F + 1
BodyStarts(recs) == [p \in {StartOf(recs, j) : j \in DOMAIN recs} |-> CHOOSE j \in DOMAIN recs : StartOf(recs, j) = p]

MCInit ==
  /\ \E recs \in UNION {[1..m -> Shapes] : m \in 0..MaxRecs} : \E cut \in 0..Len(AllBytes(recs, 1)) :
     \E bad \in 0..Len(recs) : \E b \in BatchSizes :
        /\ Len(AllBytes(recs, 1)) - cut <= MaxBytes
        /\ (bad > 0 => cut = 0)
        /\ cfg = [kind |-> "soe", bs |-> b, recs |-> recs, cutoff |-> cut, badmagic |-> bad, faithful |-> Faithful,
                  schemas |-> Schemas, bodyStart |-> BodyStarts(recs)]
        /\ LET all == AllBytes(recs, 1)
               \* a corrupted first magic byte of record `bad`
               hit == IF bad = 0 THEN 0 ELSE StartOf(recs, bad) - G - F
               dmg == [p \in DOMAIN all |-> IF p = hit THEN Byte("g", 9, 9) ELSE all[p]]
           IN inb = SubSeq(dmg, 1, Len(all) - cut)
  /\ \E c \in Chunkings(Len(inb)) : \E e \in Empties : cuts = IF e THEN WithEmpties(c, Len(inb)) ELSE c
  /\ s = SoeInit(cuts)

MCSpec == MCInit /\ [][ANext]_avars

(* what a complete, undamaged stream of known schemas means: all records in order; a batch ends *)
(* when it holds bs rows or when the next record has another schema                              *)
RECURSIVE Expected(_, _, _, _)
Expected(recs, j, cur, acc) ==
  IF j > Len(recs) THEN (IF cur.rows = <<>> THEN acc ELSE Append(acc, cur))
  ELSE LET sch == recs[j].sch IN
       IF cur.rows # <<>> /\ (cur.sch # sch \/ Len(cur.rows) = cfg.bs)
       THEN Expected(recs, j, [sch |-> sch, rows |-> <<>>], Append(acc, cur))
       ELSE Expected(recs, j + 1, [sch |-> sch, rows |-> Append(cur.rows, j)], acc)
I_SoeSemantics ==
  (s.ph = "done" /\ ~cfg.faithful /\ cfg.cutoff = 0 /\ cfg.badmagic = 0 /\ \A j \in DOMAIN cfg.recs : cfg.recs[j].sch # 3) =>
     /\ s.outcome = "ok"
     /\ s.out = Expected(cfg.recs, 1, [sch |-> 0, rows |-> <<>>], <<>>)
=============================================================================
