SPECIFICATION Spec
CONSTANTS
  MaxBytes = 1
  MaxItems = 2
  MaxRaw = 3
  Deep = FALSE
  Modes = {"value", "blocks", "bytes", "ocf"}
INVARIANTS T_Encodable T_RoundTrip T_SelfDelimiting T_Typed T_Table T_Blocks T_Bytes T_Ocf
CHECK_DEADLOCK FALSE
