------------------------------ MODULE ChunkOps ------------------------------
(***************************************************************************)
(* C14 - operators about chunkings and session results, shared by the      *)
(* abstract decoder (ChunkDecoder.tla), its refinements (IpcFraming,       *)
(* AvroFraming, CsvRecords) and the validation of recorded sessions of the *)
(* real decoders (Trace_Chunk.tla).                                        *)
(***************************************************************************)
EXTENDS Naturals, Sequences, FiniteSets

RECURSIVE Flatten(_)
Flatten(bs) == IF bs = <<>> THEN <<>> ELSE Head(bs) \o Flatten(Tail(bs))

IsPrefix(a, b) == Len(a) <= Len(b) /\ SubSeq(b, 1, Len(a)) = a
PrefixCompatible(a, b) == IsPrefix(a, b) \/ IsPrefix(b, a)

(* a chunking of 0..n: cut positions, non-decreasing, inside 0..n            *)
ValidCuts(cuts, n) ==
  /\ \A i \in DOMAIN cuts : cuts[i] \in 0..n
  /\ \A i \in DOMAIN cuts : i < Len(cuts) => cuts[i] <= cuts[i + 1]

NChunks(cuts) == Len(cuts) + 1
ChunkLo(cuts, k) == IF k = 1 THEN 0 ELSE cuts[k - 1]
ChunkHi(cuts, n, k) == IF k = Len(cuts) + 1 THEN n ELSE cuts[k]

(* every emitted batch respects the batch size (bs = 0: the format has no    *)
(* batch size - IPC, Flight and Parquet metadata emit what the writer wrote) *)
BatchBound(batches, bs) == bs = 0 \/ \A i \in DOMAIN batches : Len(batches[i]) <= bs

(* rows of s cut into batches of bs rows (the last one may be shorter)       *)
RECURSIVE Group(_, _)
Group(s, bs) == IF s = <<>> THEN <<>>
                ELSE IF Len(s) <= bs THEN <<s>>
                ELSE <<SubSeq(s, 1, bs)>> \o Group(SubSeq(s, bs + 1, Len(s)), bs)

RECURSIVE SumSeq(_)
SumSeq(s) == IF s = <<>> THEN 0 ELSE Head(s) + SumSeq(Tail(s))


(* the ascending sequence of the elements of a finite set of numbers         *)
RECURSIVE Sorted(_)
Sorted(S) == IF S = {} THEN <<>>
             ELSE LET m == CHOOSE x \in S : \A y \in S : x <= y IN <<m>> \o Sorted(S \ {m})

(* all chunkings of 0..n without empty chunks: the 2^(n-1) subsets of 1..n-1  *)
Chunkings(n) == {Sorted(S) : S \in SUBSET (1..(n - 1))}

(* the same chunking with an empty chunk in front, behind and at every cut    *)
WithEmpties(c, n) == <<0>> \o [i \in 1..(2 * Len(c)) |-> c[(i + 1) \div 2]] \o <<n>>
=============================================================================
