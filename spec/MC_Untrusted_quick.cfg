SPECIFICATION Spec
CONSTANTS
  MaxRegions = 2
  Kinds = {"magic", "len4", "zigzag", "body", "enc"}
  Widths = {1, 3}
INVARIANTS LenLaw PrefixLaw SuffixLaw Locality FrameLocality Protocol
CHECK_DEADLOCK FALSE
