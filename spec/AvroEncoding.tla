---------------------------- MODULE AvroEncoding ----------------------------
(***************************************************************************)
(* C17: the Avro binary encoding (Apache Avro specification, "Binary       *)
(* Encoding", "Object Container Files", "Single-object encoding") as       *)
(* operators on byte sequences - the independent Avro implementation the   *)
(* property asks for.                                                      *)
(*                                                                         *)
(*   null            zero bytes                                            *)
(*   boolean         one byte 0 / 1                                        *)
(*   int, long       zig-zag, then base-128 little-endian varint           *)
(*   float, double   4 / 8 bytes, IEEE-754 bit pattern little-endian       *)
(*   bytes, string   long length, then the bytes (string: UTF-8)           *)
(*   fixed           the bytes                                             *)
(*   enum            int index of the symbol                               *)
(*   array, map      blocks: long count, count items (map: string key,     *)
(*                   value); a count of 0 ends; a negative count -n is     *)
(*                   followed by the long byte size of the block, then n   *)
(*                   items.  Encode writes one block (what every encoder   *)
(*                   may do); Decode reads both forms and any blocking     *)
(*   record          the fields in order                                   *)
(*   union           long branch index, then the value                     *)
(*                                                                         *)
(* Integers are BigNum values (64-bit longs do not fit TLC's integers);    *)
(* inside a value they are kept in wire form <<sign>> \o limbs.            *)
(* AvroFraming.tla (C14) abstracts varint digits to base 4 and tags bytes  *)
(* with roles to explore chunkings; this module is the byte-exact reading. *)
(*                                                                         *)
(* A schema is [k, size, kids]:  k in null boolean int long float double   *)
(* bytes string fixed (size) enum (size = number of symbols) array (kids = *)
(* <<items>>) map (kids = <<values>>) record (kids = fields) union (kids = *)
(* branches) other (outside the fragment: logical types with their own     *)
(* byte layout such as decimal / duration / uuid).                         *)
(* A value is [k, i, n, b, kids]:  null | bool (i) | int (n) | float /     *)
(* double (b = bit pattern, big-endian bytes) | bytes (b) | enum (i) |     *)
(* arr (kids) | map (kids = k1, v1, k2, v2 ...; keys are bytes values) |   *)
(* rec (kids) | union (i = branch position from 0, kids = <<value>>).      *)
(* A union of exactly null and one other type ("optional") takes unwrapped *)
(* values: null or the value; every other union takes union values.        *)
(***************************************************************************)
EXTENDS Naturals, Integers, Sequences

B == INSTANCE BigNum WITH LimbDigits <- 4

(* ------------------------------------------------------------------ values *)
Val(k, i, n, b, kids) == [k |-> k, i |-> i, n |-> n, b |-> b, kids |-> kids]
VNull == Val("null", 0, <<0>>, <<>>, <<>>)
VBool(x) == Val("bool", x, <<0>>, <<>>, <<>>)
VInt(w) == Val("int", 0, w, <<>>, <<>>)                  \* w: wire form of the integer
VFloat(b) == Val("float", 0, <<0>>, b, <<>>)
VDouble(b) == Val("double", 0, <<0>>, b, <<>>)
VBytes(b) == Val("bytes", 0, <<0>>, b, <<>>)
VEnum(i) == Val("enum", i, <<0>>, <<>>, <<>>)
VArr(kids) == Val("arr", 0, <<0>>, <<>>, kids)
VMap(kids) == Val("map", 0, <<0>>, <<>>, kids)
VRec(kids) == Val("rec", 0, <<0>>, <<>>, kids)
VUnion(i, v) == Val("union", i, <<0>>, <<>>, <<v>>)

Sch(k, size, kids) == [k |-> k, size |-> size, kids |-> kids]
Prim(k) == Sch(k, 0, <<>>)

(* ------------------------------------------------------------------- longs *)
Pow2_31 == B!MagPow2(31)
Pow2_32 == B!MagPow2(32)
Pow2_64 == B!MagPow2(64)

(* zig-zag: n >= 0 -> 2n, n < 0 -> 2|n| - 1 (a magnitude) *)
ZigZag(x) == IF x.s = 0 THEN B!MagMulSmall(x.d, 2) ELSE B!MagSub(B!MagMulSmall(x.d, 2), <<1>>)
UnZigZag(m) == LET h == B!MagDivSmall(m, 2) IN
               IF h.r = 0 THEN B!Mk(0, h.q) ELSE B!Mk(1, B!MagAdd(h.q, <<1>>))

IsInt32(x) == B!MagCmp(ZigZag(x), Pow2_32) < 0
IsInt64(x) == B!MagCmp(ZigZag(x), Pow2_64) < 0

(* base-128 little-endian groups, all but the last with the high bit set *)
RECURSIVE Varint(_)
Varint(m) == LET x == B!MagDivSmall(m, 128) IN
             IF x.q = <<>> THEN <<x.r>> ELSE <<x.r + 128>> \o Varint(x.q)

EncLong(x) == Varint(ZigZag(x))
EncNat(n) == EncLong(B!FromInt(n))                         \* lengths, counts, indexes (small)

(* the varint that starts at b[i]: index of its last byte, 0 if there is none within 10 bytes *)
RECURSIVE VarintLast(_, _, _)
VarintLast(b, i, n) == IF i > Len(b) \/ n > 10 THEN 0 ELSE IF b[i] < 128 THEN i ELSE VarintLast(b, i + 1, n + 1)

RECURSIVE Groups(_, _, _)
Groups(b, lo, hi) ==         \* value of the groups b[lo..hi], least significant first
  IF hi < lo THEN <<>> ELSE B!MagAdd(B!MagMulSmall(Groups(b, lo + 1, hi), 128), B!MagFromNatGen(b[lo] % 128))

(* [ok, x (Big), next] *)
DecLong(b, i) ==
  LET e == VarintLast(b, i, 1) IN
  IF e = 0 THEN [ok |-> FALSE, x |-> B!Zero, next |-> i]
  ELSE LET m == Groups(b, i, e) IN
       IF B!MagCmp(m, Pow2_64) >= 0 THEN [ok |-> FALSE, x |-> B!Zero, next |-> i]
       ELSE [ok |-> TRUE, x |-> UnZigZag(m), next |-> e + 1]

(* a decoded long as a TLC integer when it is small (lengths, counts), else -1 / its sign *)
Small(x) == IF Len(x.d) <= 2 THEN B!ToInt(x) ELSE (IF x.s = 1 THEN 0 - 100000000 ELSE 100000000)

(* --------------------------------------------------------------- encoding *)
RECURSIVE Rev(_)
Rev(s) == IF s = <<>> THEN <<>> ELSE Append(Rev(Tail(s)), Head(s))

IsOptional(s) ==
  s.k = "union" /\ Len(s.kids) = 2 /\ ((s.kids[1].k = "null") # (s.kids[2].k = "null"))
NullBranch(s) == IF s.kids[1].k = "null" THEN 1 ELSE 2

OK(b) == [ok |-> TRUE, b |-> b]
BAD == [ok |-> FALSE, b |-> <<>>]
IsBytes(b) == \A j \in 1..Len(b) : b[j] \in 0..255

RECURSIVE Enc(_, _), EncItems(_, _, _), EncPairs(_, _, _), EncFields(_, _, _)

(* [ok, b]; ok = FALSE: the value is not a value of the schema (or outside the fragment) *)
Enc(v, s) ==
  CASE s.k = "null"    -> IF v.k = "null" THEN OK(<<>>) ELSE BAD
    [] s.k = "boolean" -> IF v.k = "bool" /\ v.i \in {0, 1} THEN OK(<<v.i>>) ELSE BAD
    [] s.k = "int"     -> IF v.k = "int" /\ B!IsWire(v.n) /\ IsInt32(B!FromWire(v.n)) THEN OK(EncLong(B!FromWire(v.n))) ELSE BAD
    [] s.k = "long"    -> IF v.k = "int" /\ B!IsWire(v.n) /\ IsInt64(B!FromWire(v.n)) THEN OK(EncLong(B!FromWire(v.n))) ELSE BAD
    [] s.k = "float"   -> IF v.k = "float" /\ Len(v.b) = 4 /\ IsBytes(v.b) THEN OK(Rev(v.b)) ELSE BAD
    [] s.k = "double"  -> IF v.k = "double" /\ Len(v.b) = 8 /\ IsBytes(v.b) THEN OK(Rev(v.b)) ELSE BAD
    [] s.k \in {"bytes", "string"} -> IF v.k = "bytes" /\ IsBytes(v.b) THEN OK(EncNat(Len(v.b)) \o v.b) ELSE BAD
    [] s.k = "fixed"   -> IF v.k = "bytes" /\ IsBytes(v.b) /\ Len(v.b) = s.size THEN OK(v.b) ELSE BAD
    [] s.k = "enum"    -> IF v.k = "enum" /\ v.i \in 0..(s.size - 1) THEN OK(EncNat(v.i)) ELSE BAD
    [] s.k = "array"   -> IF v.k # "arr" THEN BAD
                          ELSE IF v.kids = <<>> THEN OK(<<0>>)
                          ELSE LET r == EncItems(v.kids, s.kids[1], 1) IN
                               IF r.ok THEN OK(EncNat(Len(v.kids)) \o r.b \o <<0>>) ELSE BAD
    [] s.k = "map"     -> IF v.k # "map" \/ Len(v.kids) % 2 # 0 THEN BAD
                          ELSE IF v.kids = <<>> THEN OK(<<0>>)
                          ELSE LET r == EncPairs(v.kids, s.kids[1], 1) IN
                               IF r.ok THEN OK(EncNat(Len(v.kids) \div 2) \o r.b \o <<0>>) ELSE BAD
    [] s.k = "record"  -> IF v.k = "rec" /\ Len(v.kids) = Len(s.kids) THEN EncFields(v.kids, s.kids, 1) ELSE BAD
    [] s.k = "union"   ->
         IF IsOptional(s) THEN
           (IF v.k = "null" THEN OK(EncNat(NullBranch(s) - 1))
            ELSE LET j == 3 - NullBranch(s)  r == Enc(v, s.kids[j]) IN
                 IF r.ok THEN OK(EncNat(j - 1) \o r.b) ELSE BAD)
         ELSE IF v.k = "union" /\ v.i \in 0..(Len(s.kids) - 1) /\ Len(v.kids) = 1 THEN
           (LET r == Enc(v.kids[1], s.kids[v.i + 1]) IN IF r.ok THEN OK(EncNat(v.i) \o r.b) ELSE BAD)
         ELSE BAD
    [] OTHER -> BAD

EncItems(kids, s, j) ==
  IF j > Len(kids) THEN OK(<<>>)
  ELSE LET a == Enc(kids[j], s) IN
       IF ~a.ok THEN BAD ELSE LET r == EncItems(kids, s, j + 1) IN IF r.ok THEN OK(a.b \o r.b) ELSE BAD

EncPairs(kids, s, j) ==
  IF j > Len(kids) THEN OK(<<>>)
  ELSE LET k == Enc(kids[j], Prim("string"))
           a == Enc(kids[j + 1], s) IN
       IF ~k.ok \/ ~a.ok THEN BAD ELSE LET r == EncPairs(kids, s, j + 2) IN IF r.ok THEN OK(k.b \o a.b \o r.b) ELSE BAD

EncFields(kids, ss, j) ==
  IF j > Len(kids) THEN OK(<<>>)
  ELSE LET a == Enc(kids[j], ss[j]) IN
       IF ~a.ok THEN BAD ELSE LET r == EncFields(kids, ss, j + 1) IN IF r.ok THEN OK(a.b \o r.b) ELSE BAD

(* the datum, the data of a container block / a sequence of bodies *)
Encode(v, s) == Enc(v, s)
RECURSIVE EncodeRows(_, _)
EncodeRows(vs, s) ==
  IF vs = <<>> THEN OK(<<>>)
  ELSE LET a == Enc(Head(vs), s) IN
       IF ~a.ok THEN BAD ELSE LET r == EncodeRows(Tail(vs), s) IN IF r.ok THEN OK(a.b \o r.b) ELSE BAD

(* the schema is inside the fragment this module decides *)
RECURSIVE InFragment(_)
InFragment(s) == s.k # "other" /\ \A j \in 1..Len(s.kids) : InFragment(s.kids[j])

(* a union may not hold two branches of the same unnamed type, nor a union directly (Avro specification, *)
(* "Unions"); named types (record, fixed, enum) may repeat under different names                        *)
RECURSIVE SchemaOk(_)
SchemaOk(s) ==
  /\ \A j \in 1..Len(s.kids) : SchemaOk(s.kids[j])
  /\ (s.k = "union" =>
        /\ \A j \in 1..Len(s.kids) : s.kids[j].k # "union"
        /\ \A i, j \in 1..Len(s.kids) : (i # j /\ s.kids[i].k = s.kids[j].k) => s.kids[i].k \in {"record", "fixed", "enum", "other"})

(* --------------------------------------------------------------- decoding *)
DFail(i) == [ok |-> FALSE, v |-> VNull, next |-> i]
DOk(v, i) == [ok |-> TRUE, v |-> v, next |-> i]

RECURSIVE Dec(_, _, _), DecBlocks(_, _, _, _, _), DecN(_, _, _, _, _, _), DecFields(_, _, _, _, _)

(* [ok, v, next]: the datum of schema s that starts at b[i] *)
Dec(b, i, s) ==
  CASE s.k = "null"    -> DOk(VNull, i)
    [] s.k = "boolean" -> IF i <= Len(b) /\ b[i] \in {0, 1} THEN DOk(VBool(b[i]), i + 1) ELSE DFail(i)
    [] s.k \in {"int", "long"} ->
         LET r == DecLong(b, i) IN
         IF r.ok /\ (s.k = "long" \/ IsInt32(r.x)) THEN DOk(VInt(B!ToWire(r.x)), r.next) ELSE DFail(i)
    [] s.k = "float"   -> IF i + 3 <= Len(b) THEN DOk(VFloat(Rev(SubSeq(b, i, i + 3))), i + 4) ELSE DFail(i)
    [] s.k = "double"  -> IF i + 7 <= Len(b) THEN DOk(VDouble(Rev(SubSeq(b, i, i + 7))), i + 8) ELSE DFail(i)
    [] s.k \in {"bytes", "string"} ->
         LET r == DecLong(b, i) IN
         IF ~r.ok THEN DFail(i)
         ELSE LET n == Small(r.x) IN
              IF n >= 0 /\ r.next + n - 1 <= Len(b) THEN DOk(VBytes(SubSeq(b, r.next, r.next + n - 1)), r.next + n) ELSE DFail(i)
    [] s.k = "fixed"   -> IF i + s.size - 1 <= Len(b) THEN DOk(VBytes(SubSeq(b, i, i + s.size - 1)), i + s.size) ELSE DFail(i)
    [] s.k = "enum"    ->
         LET r == DecLong(b, i) IN
         IF r.ok /\ Small(r.x) \in 0..(s.size - 1) THEN DOk(VEnum(Small(r.x)), r.next) ELSE DFail(i)
    [] s.k = "array"   -> LET r == DecBlocks(b, i, s.kids[1], FALSE, <<>>) IN IF r.ok THEN DOk(VArr(r.v), r.next) ELSE DFail(i)
    [] s.k = "map"     -> LET r == DecBlocks(b, i, s.kids[1], TRUE, <<>>) IN IF r.ok THEN DOk(VMap(r.v), r.next) ELSE DFail(i)
    [] s.k = "record"  -> LET r == DecFields(b, i, s.kids, 1, <<>>) IN IF r.ok THEN DOk(VRec(r.v), r.next) ELSE DFail(i)
    [] s.k = "union"   ->
         LET r == DecLong(b, i) IN
         IF ~r.ok \/ Small(r.x) \notin 0..(Len(s.kids) - 1) THEN DFail(i)
         ELSE LET j == Small(r.x)  x == Dec(b, r.next, s.kids[j + 1]) IN
              IF ~x.ok THEN DFail(i)
              ELSE IF IsOptional(s) THEN x ELSE DOk(VUnion(j, x.v), x.next)
    [] OTHER -> DFail(i)

(* blocks of an array (pairs = FALSE) or map (pairs = TRUE) until the 0 count: [ok, v = items, next] *)
DecBlocks(b, i, s, pairs, acc) ==
  LET c == DecLong(b, i) IN
  IF ~c.ok THEN DFail(i)
  ELSE LET n == Small(c.x) IN
       IF n = 0 THEN [ok |-> TRUE, v |-> acc, next |-> c.next]
       ELSE IF n > 0 THEN
              LET r == DecN(b, c.next, s, pairs, n, acc) IN
              IF r.ok THEN DecBlocks(b, r.next, s, pairs, r.v) ELSE DFail(i)
       ELSE LET z == DecLong(b, c.next) IN                              \* negative count: byte size follows
            IF ~z.ok \/ Small(z.x) < 0 THEN DFail(i)
            ELSE LET r == DecN(b, z.next, s, pairs, 0 - n, acc) IN
                 IF r.ok /\ r.next = z.next + Small(z.x) THEN DecBlocks(b, r.next, s, pairs, r.v) ELSE DFail(i)

DecN(b, i, s, pairs, n, acc) ==
  IF n = 0 THEN [ok |-> TRUE, v |-> acc, next |-> i]
  ELSE IF ~pairs THEN
         LET x == Dec(b, i, s) IN IF x.ok THEN DecN(b, x.next, s, pairs, n - 1, Append(acc, x.v)) ELSE DFail(i)
  ELSE LET k == Dec(b, i, Prim("string")) IN
       IF ~k.ok THEN DFail(i)
       ELSE LET x == Dec(b, k.next, s) IN
            IF x.ok THEN DecN(b, x.next, s, pairs, n - 1, acc \o <<k.v, x.v>>) ELSE DFail(i)

DecFields(b, i, ss, j, acc) ==
  IF j > Len(ss) THEN [ok |-> TRUE, v |-> acc, next |-> i]
  ELSE LET x == Dec(b, i, ss[j]) IN
       IF x.ok THEN DecFields(b, x.next, ss, j + 1, Append(acc, x.v)) ELSE DFail(i)

(* the whole of b is exactly one datum: [ok, v] *)
Decode(b, s) == LET r == Dec(b, 1, s) IN
                IF r.ok /\ r.next = Len(b) + 1 THEN [ok |-> TRUE, v |-> r.v] ELSE [ok |-> FALSE, v |-> VNull]

(* n data one after the other filling b exactly: [ok, vs] *)
RECURSIVE DecRowsFrom(_, _, _, _, _)
DecRowsFrom(b, i, s, n, acc) ==
  IF n = 0 THEN [ok |-> i = Len(b) + 1, vs |-> acc]
  ELSE LET r == Dec(b, i, s) IN
       IF r.ok THEN DecRowsFrom(b, r.next, s, n - 1, Append(acc, r.v)) ELSE [ok |-> FALSE, vs |-> acc]
DecodeRows(b, s, n) == DecRowsFrom(b, 1, s, n, <<>>)

(* THEOREM  Enc(v, s).ok => Decode(Enc(v, s).b, s) = [ok |-> TRUE, v |-> v]     *)
RoundTrip(v, s) == LET e == Enc(v, s) IN e.ok => Decode(e.b, s) = [ok |-> TRUE, v |-> v]

(* ---------------------------------------------- object container files *)
OcfMagic == <<79, 98, 106, 1>>                 \* "Obj" 1
SyncLen == 16

(* file metadata: a map of bytes, as [key, val] records in file order *)
RECURSIVE MetaPairs(_, _, _, _)
MetaPairs(b, i, n, acc) ==
  IF n = 0 THEN [ok |-> TRUE, v |-> acc, next |-> i]
  ELSE LET k == Dec(b, i, Prim("string")) IN
       IF ~k.ok THEN [ok |-> FALSE, v |-> acc, next |-> i]
       ELSE LET x == Dec(b, k.next, Prim("bytes")) IN
            IF ~x.ok THEN [ok |-> FALSE, v |-> acc, next |-> i]
            ELSE MetaPairs(b, x.next, n - 1, Append(acc, [key |-> k.v.b, val |-> x.v.b]))
RECURSIVE MetaBlocks(_, _, _)
MetaBlocks(b, i, acc) ==
  LET c == DecLong(b, i) IN
  IF ~c.ok THEN [ok |-> FALSE, v |-> acc, next |-> i]
  ELSE LET n == Small(c.x) IN
       IF n = 0 THEN [ok |-> TRUE, v |-> acc, next |-> c.next]
       ELSE IF n > 0 THEN LET r == MetaPairs(b, c.next, n, acc) IN
                          IF r.ok THEN MetaBlocks(b, r.next, r.v) ELSE r
       ELSE LET z == DecLong(b, c.next) IN
            IF ~z.ok THEN [ok |-> FALSE, v |-> acc, next |-> i]
            ELSE LET r == MetaPairs(b, z.next, 0 - n, acc) IN
                 IF r.ok THEN MetaBlocks(b, r.next, r.v) ELSE r

(* data blocks: count, size, data, sync - until the end of the file *)
RECURSIVE DataBlocks(_, _, _, _)
DataBlocks(b, i, sync, acc) ==
  IF i = Len(b) + 1 THEN [ok |-> TRUE, blocks |-> acc]
  ELSE LET c == DecLong(b, i) IN
       IF ~c.ok \/ Small(c.x) < 0 THEN [ok |-> FALSE, blocks |-> acc]
       ELSE LET z == DecLong(b, c.next) IN
            IF ~z.ok \/ Small(z.x) < 0 THEN [ok |-> FALSE, blocks |-> acc]
            ELSE LET n == Small(z.x)  d == z.next  e == d + n IN      \* data = b[d..e-1], sync = b[e..e+15]
                 IF e + SyncLen - 1 > Len(b) \/ SubSeq(b, e, e + SyncLen - 1) # sync THEN [ok |-> FALSE, blocks |-> acc]
                 ELSE DataBlocks(b, e + SyncLen, sync, Append(acc, [count |-> Small(c.x), data |-> SubSeq(b, d, e - 1)]))

(* [ok, meta, sync, blocks] *)
OcfParse(b) ==
  LET bad == [ok |-> FALSE, meta |-> <<>>, sync |-> <<>>, blocks |-> <<>>] IN
  IF Len(b) < 4 \/ SubSeq(b, 1, 4) # OcfMagic THEN bad
  ELSE LET m == MetaBlocks(b, 5, <<>>) IN
       IF ~m.ok \/ m.next + SyncLen - 1 > Len(b) THEN bad
       ELSE LET sync == SubSeq(b, m.next, m.next + SyncLen - 1)
                d == DataBlocks(b, m.next + SyncLen, sync, <<>>) IN
            IF ~d.ok THEN bad ELSE [ok |-> TRUE, meta |-> m.v, sync |-> sync, blocks |-> d.blocks]

MetaGet(meta, key) ==      \* the value of `key`, <<>> when absent
  IF \E j \in 1..Len(meta) : meta[j].key = key THEN meta[CHOOSE j \in 1..Len(meta) : meta[j].key = key].val ELSE <<>>

(* a container written from blocks: header with the given metadata, then the blocks *)
RECURSIVE WriteMeta(_)
WriteMeta(meta) == IF meta = <<>> THEN <<>>
                   ELSE EncNat(Len(Head(meta).key)) \o Head(meta).key \o EncNat(Len(Head(meta).val)) \o Head(meta).val \o WriteMeta(Tail(meta))
RECURSIVE WriteBlocks(_, _)
WriteBlocks(blocks, sync) ==
  IF blocks = <<>> THEN <<>>
  ELSE EncNat(Head(blocks).count) \o EncNat(Len(Head(blocks).data)) \o Head(blocks).data \o sync \o WriteBlocks(Tail(blocks), sync)
OcfWrite(meta, sync, blocks) ==
  OcfMagic \o (IF meta = <<>> THEN <<>> ELSE EncNat(Len(meta)) \o WriteMeta(meta)) \o <<0>> \o sync \o WriteBlocks(blocks, sync)

(* single-object encoding: C3 01, 8-byte little-endian CRC-64-AVRO fingerprint of the schema, datum *)
SoeMagic == <<195, 1>>
SoePrefixLen == 10
=============================================================================
