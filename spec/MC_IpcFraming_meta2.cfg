SPECIFICATION MCSpec
CONSTANTS
  W = 2
  MaxMsgs = 2
  MaxBytes = 10
  Metas = {2}
  Bodies = {0, 1}
  Extras = {0}
INVARIANTS I_Window I_ChunkIndependent I_FramingSemantics
CHECK_DEADLOCK TRUE
