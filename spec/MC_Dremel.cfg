SPECIFICATION Spec
CONSTANTS
  Depth = 3
  MaxLen = 2
  WideDepth = 2
  RowBudget = 20
INVARIANTS Typed ThmRoundTrip ThmLevels ThmInjective
CHECK_DEADLOCK FALSE
