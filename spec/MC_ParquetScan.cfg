SPECIFICATION Spec
CONSTANTS
  RgRows <- RgThorough
  MaxPreds = 2
  Offsets <- OffThorough
  Limits <- LimAll
  BatchSizes = {1, 2, 3}
  Policies = {"Selectors", "Mask", "Auto"}
  Threshold = 2
  NullPreds <- NullThorough
INVARIANTS S1_Prefix S1_Complete S2_Batches S2_Done S3_InBounds S4_ByGroup
CHECK_DEADLOCK FALSE
