----------------------------- MODULE MC_Truncate -----------------------------
(***************************************************************************)
(* Exhaustive check of the truncation theorem of Truncate.tla:              *)
(* (a) every byte string of length <= MaxBytes over ByteAlphabet (0x00,     *)
(*     'a', 0x7F, 0x80, 0xFF: carry, all-0xFF, sign bit) at every           *)
(*     truncation length, as a binary column and as a UTF-8 column holding  *)
(*     invalid data;                                                        *)
(* (b) every UTF-8 string of at most MaxChars code points over CodePoints   *)
(*     (the boundaries of every encoded width, the surrogate gap, the last  *)
(*     scalar value) at every truncation length, as a UTF-8 column and as   *)
(*     a binary column.                                                     *)
(* One state per case (the invariants judge the initial states).            *)
(***************************************************************************)
EXTENDS Truncate, TLC

CONSTANTS ByteAlphabet, MaxBytes, CodePoints, MaxChars

SeqsUpTo(X, n) == UNION {[1..k -> X] : k \in 0..n}

RECURSIVE EncodeAll(_)
EncodeAll(cps) == IF cps = <<>> THEN <<>> ELSE Encode(Head(cps)) \o EncodeAll(Tail(cps))

VARIABLES d, l, utf8, kind
vars == <<d, l, utf8, kind>>

Init ==
  \/ /\ kind = "bytes" /\ d \in SeqsUpTo(ByteAlphabet, MaxBytes) /\ l \in 1..MaxBytes /\ utf8 \in BOOLEAN
  \/ /\ kind = "utf8" /\ utf8 \in BOOLEAN /\ l \in 1..(4 * MaxChars)
     /\ \E cps \in SeqsUpTo(CodePoints, MaxChars) : d = EncodeAll(cps)

Next == UNCHANGED vars
Spec == Init /\ [][Next]_vars

ThmSound == TruncationSound(d, l, utf8)
(* the encoder used by the model produces well-formed UTF-8, and Chars decodes it back *)
ThmCodec ==
  kind = "utf8" => /\ Valid(d) /\ DecodeValid(d)
                   /\ EncodeAll([k \in 1..Len(Chars(d)) |-> Chars(d)[k].cp]) = d
(* the results for valid UTF-8 in a UTF-8 column never split a character     *)
ThmUtf8Kept ==
  (utf8 /\ Valid(d)) => Valid(TruncMin(d, l, utf8).v) /\ Valid(TruncMax(d, l, utf8).v)
(* vacuity guards: both outcomes of the rule (cut / kept as is) occur for   *)
(* lower and upper bounds in each universe                                  *)
ASSUME \E b \in SeqsUpTo(ByteAlphabet, MaxBytes), n \in 1..MaxBytes :
          TruncMin(b, n, FALSE).cut /\ TruncMax(b, n, FALSE).cut
ASSUME \E b \in SeqsUpTo(ByteAlphabet, MaxBytes), n \in 1..MaxBytes :
          Len(b) > n /\ ~TruncMax(b, n, FALSE).cut
ASSUME \E cps \in SeqsUpTo(CodePoints, 2), n \in 1..8 :
          TruncMin(EncodeAll(cps), n, TRUE).cut /\ TruncMax(EncodeAll(cps), n, TRUE).cut
ASSUME \E cps \in SeqsUpTo(CodePoints, 2), n \in 1..8 :
          Len(EncodeAll(cps)) > n /\ ~TruncMax(EncodeAll(cps), n, TRUE).cut
=============================================================================
