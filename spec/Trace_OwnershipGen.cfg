SPECIFICATION Spec
CONSTANTS
  Regions = {1, 2, 3, 4, 5, 6}
  Handles = {1, 2, 3, 4}
INVARIANTS O1_NoDangling O2_Immutable O3_ExactlyOnce O4_PoolExact O5_FfiMirror
POSTCONDITION AllConsumed
CHECK_DEADLOCK FALSE
