----------------------------- MODULE MC_IpcDict -----------------------------
(* Exhaustive model of the IPC dictionary machine (C04): every history of   *)
(* at most MaxWrites write calls over nd dictionary ids, for the file and   *)
(* the stream writers and both dictionary handlings.  Between two batches a *)
(* dictionary is presented again as the same array, as an equal copy,       *)
(* extended, shrunk, changed in place, reversed or emptied.                 *)
EXTENDS IpcDict, TLC

CONSTANTS Kinds, Handlings, NDs, Vals, MaxLen, MaxWrites,
          ContinueAfterError,    \* FALSE: a refused write ends the session (finish only)
          Rich                   \* TRUE: the full set of evolutions; FALSE: one representative per class

VARIABLE phase                   \* "init" before the writer exists
mvars == <<dvars, phase>>

Last(d) == given[Len(given)].dicts[d]

(* an identity different from the tracker's entry and from the array given last *)
Fresh(d) ==
  LET used == (IF written[d] = NoDict THEN {} ELSE {written[d].obj})
              \cup (IF given = <<>> THEN {} ELSE {Last(d).obj})
  IN CHOOSE o \in 0..2 : o \notin used

Rev(s) == [i \in 1..Len(s) |-> s[Len(s) + 1 - i]]

(* the dictionaries one id may present in the next batch *)
V1 == CHOOSE x \in Vals : TRUE
V2 == CHOOSE x \in Vals : x # V1
FirstDicts == IF Rich THEN {<<>>} \cup {<<v>> : v \in Vals} \cup {<<V1, w>> : w \in Vals}
              ELSE {<<>>, <<V1>>, <<V1, V2>>}
NextVals(d) ==
  IF given = <<>> THEN FirstDicts
  ELSE LET v == Last(d).vals  n == Len(v) IN
       {v}                                                                   \* equal copy
       \cup (IF n < MaxLen THEN {Append(v, x) : x \in Vals} ELSE {})          \* extended
       \cup (IF n > 0 THEN {SubSeq(v, 1, n - 1)} ELSE {})                     \* shrunk
       \cup (IF n > 0 THEN {[v EXCEPT ![n] = x] : x \in Vals} ELSE {})        \* last entry changed
       \cup (IF Rich /\ n > 0 THEN {<<>>, Rev(v)} ELSE {})                    \* emptied, reversed
       \cup (IF Rich /\ n > 1 THEN {[v EXCEPT ![1] = x] : x \in Vals} ELSE {}) \* first entry changed

Choices(d) ==
  {Dict(v, Fresh(d)) : v \in NextVals(d)} \cup (IF given = <<>> THEN {} ELSE {Last(d)})   \* ... or the same array

RECURSIVE Tuples(_)
Tuples(d) == IF d > nd THEN {<<>>} ELSE {<<c>> \o t : c \in Choices(d), t \in Tuples(d + 1)}

MCInit ==
  /\ phase = "init"
  /\ kind = "stream" /\ handling = "resend" /\ nd = 1 /\ written = NoDicts(1)
  /\ msgs = <<SchemaMsg>> /\ closed = FALSE /\ given = <<>>

MCStart == /\ phase = "init" /\ phase' = "run"
           /\ \E k \in Kinds, h \in Handlings, n \in NDs : Start(k, h, n)

Refused == \E i \in DOMAIN given : ~given[i].ok

MCWrite ==
  /\ phase = "run" /\ Len(given) < MaxWrites
  /\ ContinueAfterError \/ ~Refused
  /\ \E ds \in Tuples(1) : Write(ds)
  /\ UNCHANGED phase

MCFinish == phase = "run" /\ Finish /\ UNCHANGED phase

MCNext == MCStart \/ MCWrite \/ MCFinish
MCSpec == MCInit /\ [][MCNext]_mvars
=============================================================================
