SPECIFICATION TSpec
CONSTANTS NoDict = NoDict
INVARIANTS R1_RoundTrip R1s_StreamExact R2_FileNoReplacement R3_OneMessagePerAcceptedBatch I_Order I_Sync I_Refusals
POSTCONDITION AllConsumed
CHECK_DEADLOCK FALSE
