SPECIFICATION Spec
CONSTANTS
  Regions = {1, 2, 3, 4, 5, 6, 7, 8, 9, 10, 11, 12, 13, 14, 15, 16, 17, 18, 19, 20, 21, 22, 23, 24, 25, 26, 27, 28, 29, 30, 31, 32, 33, 34, 35, 36, 37, 38, 39, 40}
  Handles = {1, 2, 3, 4, 5, 6, 7, 8, 9, 10}
INVARIANTS O1_NoDangling O2_Immutable O3_ExactlyOnce O4_PoolExact O5_FfiMirror
POSTCONDITION AllConsumed
CHECK_DEADLOCK FALSE
