--------------------------- MODULE Trace_FaultIO ---------------------------
(***************************************************************************)
(* C18, impl -> spec: recorded sessions of the real arrow-rs writers and   *)
(* readers over the fault-injecting sink / source (harness/p/c18).         *)
(*                                                                         *)
(* wsess  one writer session (format, API script) under the fault plan     *)
(*        (k, kind):  sop / slen / sret  the sink call log (0 write, 1     *)
(*        flush; bytes offered; bytes accepted, -1 error, -2 interrupted), *)
(*        api / ares / aat / aterm  the API calls, their result class, the *)
(*        number of sink calls made when each returned and whether the     *)
(*        call is a data call (0), a terminating call returning a Result   *)
(*        (1) or one that cannot report (2), and the pure                  *)
(*        projections  acc_len, full_len, acc_digest (digest of the        *)
(*        accepted bytes), full_prefix_digest (digest of the first acc_len *)
(*        bytes of the fault-free output; Avro container: the 16 random    *)
(*        sync bytes are blanked in both).                                 *)
(*        The sink log is read through FaultOps!LogState / SinkLogLegal (the sink   *)
(*        answered as the model says, accepted acc_len bytes, the fault    *)
(*        was consumed or not), then W0-W4, W7 (retried finish) are judged, plus W5 (Parquet:   *)
(*        no successful close after a failed row group) and W6 (rb: what   *)
(*        the format's reader returns for the accepted bytes when the      *)
(*        terminating call succeeded after a reported failure).            *)
(* rref   per reader case: rows written, rows returned by the fault-free   *)
(*        reader on the complete file                                      *)
(* rsess  the reader under the source fault plan (k, kind): T3             *)
(* cut    the reader on the first n of len bytes: T1 / T2                  *)
(* got / orig are sequences of batches of row tokens (vcore::tok); orig is *)
(* what the fault-free reader returns (rref ties it to the written rows).  *)
(***************************************************************************)
EXTENDS FaultOps, TraceBase

VARIABLE l

Plan(ev) == [k |-> ev.k, kind |-> ev.kind]

(* ------------------------------------------------------------- writers *)
LogShape(ev) ==
  /\ Len(ev.sop) = Len(ev.slen) /\ Len(ev.sop) = Len(ev.sret)
  /\ Len(ev.api) = Len(ev.ares) /\ Len(ev.api) = Len(ev.aat) /\ Len(ev.api) = Len(ev.aterm)
  /\ \A i \in DOMAIN ev.aterm : ev.aterm[i] \in {0, 1, 2}
  /\ \A i \in DOMAIN ev.aat : /\ ev.aat[i] >= 0 /\ ev.aat[i] <= Len(ev.sop)
                              /\ i > 1 => ev.aat[i - 1] <= ev.aat[i]
  /\ ev.kind \in Kinds

Outcome(res) ==
  IF \E i \in DOMAIN res : res[i] = "hang" THEN "hang"
  ELSE IF \E i \in DOMAIN res : res[i] = "panic" THEN "panic"
  ELSE IF \E i \in DOMAIN res : res[i] = "err" THEN "err" ELSE "ok"

WSum(ev, st, res) ==
  [class |-> FaultClass(Plan(ev), st), redundant |-> st.redundant, k |-> ev.k,
   res |-> res, at |-> ev.aat, term |-> ev.aterm,
   prefix |-> ev.acc_len <= ev.full_len /\ ev.acc_digest = ev.full_prefix_digest,
   complete |-> ev.acc_len = ev.full_len /\ ev.acc_digest = ev.full_prefix_digest,
   nomissing |-> ev.acc_len >= ev.full_len,
   \* rb = "none": the format has no reader here (json array, avro single-object) - under the premise
   \* of W7 a call succeeded after a failure, and then the driver reads back whenever a reader exists
   rbnone |-> ev.rb = "none",
   rbsame |-> ev.rb = "ok" /\ ev.rb_got = ev.rb_ref]

(* the session as judged with the API results `res`: sink log, W0-W4          *)
WBase(ev, res) ==
  /\ LogShape(ev)
  /\ SinkLogLegal(Plan(ev), ev.sop, ev.slen, ev.sret)   \* the sink behaved as the model's sink
  /\ LET st == LogState(Plan(ev), ev.sop, ev.slen, ev.sret) IN
     /\ st.acc = ev.acc_len            \* it accepted exactly acc_len bytes
     /\ st.fired = ev.fired
     /\ WriterOk(WSum(ev, st, res))
  /\ ev.outcome = Outcome(ev.ares)

(* W5 - Parquet (footer indexes every row group): a footer is never written   *)
(* after a row group that failed.  When a data call (write / flush: they      *)
(* write row groups) reported an error, the terminating call must not report  *)
(* success: "successful close on a corrupt file" (unless the failed sink call *)
(* had nothing to transfer: a write of zero bytes).  The sync ArrowWriter      *)
(* guarantees it (SerializedFileWriter refuses to finish while a row group    *)
(* writer was left unclosed).  For the other formats a terminating call that  *)
(* has nothing left to write (csv close, json finish, avro finish) or that    *)
(* appends a footer listing only the complete batches (IPC) may succeed after *)
(* a reported failure; W6 then constrains what the result reads back as.      *)
PqStrict(ev, res) ==
  LET n == Len(ev.api)
      st == LogState(Plan(ev), ev.sop, ev.slen, ev.sret) IN
  (ev.fmt \in {"parquet", "pq_async"} /\ n >= 1 /\ st.fired /\ ~st.redundant) =>
     ((\E i \in 1..(n - 1) : ev.api[i] \in {"write", "flush"} /\ res[i] = "err") => res[n] # "ok")

(* W6 - some call reported success after an earlier call reported a failure:  *)
(* the bytes the sink holds, read with the format's reader (rb = its outcome, *)
(* rb_rows = the rows it returned; rb_got / rb_ref = the batches it returned  *)
(* for these bytes / for the fault-free output, used by W7), never yield a    *)
(* row that was not written                                                    *)
ReadBackOk(ev) ==
  ev.rb # "none" =>
    /\ ev.rb \in {"ok", "err"}
    /\ PrefixFor(IF ev.rb_cls = "csv" THEN "csv" ELSE "rows", <<ev.rb_rows>>, <<ev.rb_written>>)

WJudge(ev, res) == WBase(ev, res) /\ PqStrict(ev, res) /\ ReadBackOk(ev)

(* Known finding C18-csv-into-inner-unwrap: arrow_csv::Writer::into_inner    *)
(* unwraps the result of csv::Writer::into_inner, which flushes: when a sink *)
(* call made by into_inner fails (a dead sink after a failed write, or just  *)
(* the flush at that point) it panics.  Identified by: format csv, the last  *)
(* API call is into_inner with result "panic", no other panic / hang, and a  *)
(* sink call issued during into_inner returned an error.  The session must   *)
(* satisfy every property when that result is read as a reported error.      *)
CsvIntoInnerPanic(ev) ==
  LET n == Len(ev.api) IN
  /\ ev.fmt = "csv" /\ LogShape(ev) /\ n >= 2
  /\ ev.api[n] = "into_inner" /\ ev.ares[n] = "panic"
  /\ \A i \in 1..(n - 1) : ev.ares[i] \in {"ok", "err"}
  /\ \E j \in (ev.aat[n - 1] + 1)..ev.aat[n] : ev.sret[j] < 0
  /\ WJudge([ev EXCEPT !.outcome = "err", !.ares[n] = "err"], [ev.ares EXCEPT ![n] = "err"])

(* Known finding C18-pq-async-close-after-failed-write: AsyncArrowWriter *)
(* hands the bytes of the flushed row groups to AsyncFileWriter::write; when   *)
(* that write fails (reported by write / flush) the bytes are dropped but the  *)
(* sync writer's offsets stay, and a later finish / close - the sink working   *)
(* again - writes the footer and reports success for an unreadable file.       *)
(* Identified by: format pq_async, one-shot error, a data call reported   *)
(* the error, the terminating call reported success, bytes are missing, and    *)
(* every other rule holds.                                                     *)
PqAsyncCloseAfterFailure(ev) ==
  /\ ev.fmt = "pq_async" /\ ev.kind = "error_once"
  /\ WBase(ev, ev.ares) /\ ReadBackOk(ev)
  /\ ~PqStrict(ev, ev.ares)
  /\ ev.acc_len < ev.full_len

WKF(ev) == IF CsvIntoInnerPanic(ev) THEN "C18-csv-into-inner-unwrap"
           ELSE IF PqAsyncCloseAfterFailure(ev) THEN "C18-pq-async-close-after-failed-write"
           ELSE ""

(* ------------------------------------------------------------- readers *)
RefOk(ev) ==
  /\ ev.outcome = "ok"
  /\ ev.round_trip => Flatten(ev.written) = Flatten(ev.read)
  /\ (ev.round_trip /\ ev.cls = "stream") => ev.written = ev.read
  /\ ev.cls \in {"footer", "stream", "rows", "csv"}

RSessOk(ev) ==
  /\ Len(ev.sop) = Len(ev.slen) /\ Len(ev.sop) = Len(ev.sret)
  /\ ev.kind \in Kinds \ {"zero"}
  /\ SrcLogLegal(Plan(ev), ev.sop, ev.slen, ev.sret)
  /\ LET st == LogState(Plan(ev), ev.sop, ev.slen, ev.sret) IN
     /\ st.fired = ev.fired
     /\ ReadOk(ReaderClass(Plan(ev), st), ev.outcome, ev.got, ev.orig)
     /\ ev.cls = "stream" => IsPrefix(ev.got, ev.orig)

Explains(ev) ==
  CASE ev.op = "wsess" -> WJudge(ev, ev.ares)
    [] ev.op = "rref"  -> RefOk(ev)
    [] ev.op = "rsess" -> RSessOk(ev)
    [] ev.op = "cut"   -> CutOk(ev.cls, ev.n, ev.len, ev.outcome, ev.got, ev.orig)
    [] OTHER -> FALSE

KF(ev) == IF ev.op = "wsess" THEN WKF(ev) ELSE ""

What(ev) == IF ev.op = "rref" THEN ev.op ELSE ev.op \o " " \o ev.fmt

Init == l = 1
Next == /\ l <= Len(Rec)
        /\ l' = l + 1
        /\ LET ev == Rec[l] IN
           LET ok == Explains(ev) IN JudgeKF(ok, l, What(ev), IF ok THEN "" ELSE KF(ev))
Spec == Init /\ [][Next]_l
=============================================================================
