--------------------------- MODULE Trace_FaultIO ---------------------------
(***************************************************************************)
(* C18, impl -> spec: recorded sessions of the real arrow-rs writers and   *)
(* readers over the fault-injecting sink / source (harness/p/c18).         *)
(*                                                                         *)
(* wsess  one writer session (format, API script) under the fault plan     *)
(*        (k, kind):  sop / slen / sret  the sink call log (0 write, 1     *)
(*        flush; bytes offered; bytes accepted, -1 error, -2 interrupted), *)
(*        api / ares / aat  the API calls, their result class and the      *)
(*        number of sink calls made when each returned, and the pure       *)
(*        projections  acc_len, full_len, acc_digest (digest of the        *)
(*        accepted bytes), full_prefix_digest (digest of the first acc_len *)
(*        bytes of the fault-free output; Avro container: the 16 random    *)
(*        sync bytes are blanked in both).                                 *)
(*        The sink log is read through FaultOps!LogState / SinkLogLegal (the sink   *)
(*        answered as the model says, accepted acc_len bytes, the fault    *)
(*        was consumed or not), then W0-W4 are judged.                     *)
(* rref   per reader case: rows written, rows returned by the fault-free   *)
(*        reader on the complete file                                      *)
(* rsess  the reader under the source fault plan (k, kind): T3             *)
(* cut    the reader on the first n of len bytes: T1 / T2                  *)
(* got / orig are sequences of batches of row tokens (vcore::tok); orig is *)
(* what the fault-free reader returns (rref ties it to the written rows).  *)
(***************************************************************************)
EXTENDS FaultOps, TraceBase

VARIABLE l

Plan(ev) == [k |-> ev.k, kind |-> ev.kind]

(* ------------------------------------------------------------- writers *)
LogShape(ev) ==
  /\ Len(ev.sop) = Len(ev.slen) /\ Len(ev.sop) = Len(ev.sret)
  /\ Len(ev.api) = Len(ev.ares) /\ Len(ev.api) = Len(ev.aat)
  /\ \A i \in DOMAIN ev.aat : /\ ev.aat[i] >= 0 /\ ev.aat[i] <= Len(ev.sop)
                              /\ i > 1 => ev.aat[i - 1] <= ev.aat[i]
  /\ ev.kind \in Kinds

Outcome(res) ==
  IF \E i \in DOMAIN res : res[i] = "hang" THEN "hang"
  ELSE IF \E i \in DOMAIN res : res[i] = "panic" THEN "panic"
  ELSE IF \E i \in DOMAIN res : res[i] = "err" THEN "err" ELSE "ok"

WSum(ev, st, res) ==
  [class |-> FaultClass(Plan(ev), st), redundant |-> st.redundant, k |-> ev.k,
   res |-> res, at |-> ev.aat,
   prefix |-> ev.acc_len <= ev.full_len /\ ev.acc_digest = ev.full_prefix_digest,
   complete |-> ev.acc_len = ev.full_len /\ ev.acc_digest = ev.full_prefix_digest]

(* the session as judged with the API results `res`                          *)
WJudge(ev, res) ==
  /\ LogShape(ev)
  /\ SinkLogLegal(Plan(ev), ev.sop, ev.slen, ev.sret)   \* the sink behaved as the model's sink
  /\ LET st == LogState(Plan(ev), ev.sop, ev.slen, ev.sret) IN
     /\ st.acc = ev.acc_len            \* it accepted exactly acc_len bytes
     /\ st.fired = ev.fired
     /\ WriterOk(WSum(ev, st, res))
  /\ ev.outcome = Outcome(ev.ares)

(* Known finding C18-csv-into-inner-unwrap: arrow_csv::Writer::into_inner    *)
(* unwraps the result of csv::Writer::into_inner, which flushes: when a sink *)
(* call made by into_inner fails (a dead sink after a failed write, or just  *)
(* the flush at that point) it panics.  Identified by: format csv, the last  *)
(* API call is into_inner with result "panic", no other panic / hang, and a  *)
(* sink call issued during into_inner returned an error.  The session must   *)
(* satisfy every property when that result is read as a reported error.      *)
CsvIntoInnerPanic(ev) ==
  LET n == Len(ev.api) IN
  /\ ev.fmt = "csv" /\ LogShape(ev) /\ n >= 2
  /\ ev.api[n] = "into_inner" /\ ev.ares[n] = "panic"
  /\ \A i \in 1..(n - 1) : ev.ares[i] \in {"ok", "err"}
  /\ \E j \in (ev.aat[n - 1] + 1)..ev.aat[n] : ev.sret[j] < 0
  /\ WJudge([ev EXCEPT !.outcome = "err", !.ares[n] = "err"], [ev.ares EXCEPT ![n] = "err"])

WKF(ev) == IF CsvIntoInnerPanic(ev) THEN "C18-csv-into-inner-unwrap" ELSE ""

(* ------------------------------------------------------------- readers *)
RefOk(ev) ==
  /\ ev.outcome = "ok"
  /\ ev.round_trip => Flatten(ev.written) = Flatten(ev.read)
  /\ (ev.round_trip /\ ev.cls = "stream") => ev.written = ev.read
  /\ ev.cls \in {"footer", "stream", "rows", "csv"}

RSessOk(ev) ==
  /\ Len(ev.sop) = Len(ev.slen) /\ Len(ev.sop) = Len(ev.sret)
  /\ ev.kind \in Kinds \ {"zero"}
  /\ SrcLogLegal(Plan(ev), ev.sop, ev.slen, ev.sret)
  /\ LET st == LogState(Plan(ev), ev.sop, ev.slen, ev.sret) IN
     /\ st.fired = ev.fired
     /\ ReadOk(ReaderClass(Plan(ev), st), ev.outcome, ev.got, ev.orig)
     /\ ev.cls = "stream" => IsPrefix(ev.got, ev.orig)

Explains(ev) ==
  CASE ev.op = "wsess" -> WJudge(ev, ev.ares)
    [] ev.op = "rref"  -> RefOk(ev)
    [] ev.op = "rsess" -> RSessOk(ev)
    [] ev.op = "cut"   -> CutOk(ev.cls, ev.n, ev.len, ev.outcome, ev.got, ev.orig)
    [] OTHER -> FALSE

KF(ev) == IF ev.op = "wsess" THEN WKF(ev) ELSE ""

What(ev) == IF ev.op = "rref" THEN ev.op ELSE ev.op \o " " \o ev.fmt

Init == l = 1
Next == /\ l <= Len(Rec)
        /\ l' = l + 1
        /\ LET ev == Rec[l] IN
           LET ok == Explains(ev) IN JudgeKF(ok, l, What(ev), IF ok THEN "" ELSE KF(ev))
Spec == Init /\ [][Next]_l
=============================================================================
