---------------------------- MODULE MC_Ownership ----------------------------
(***************************************************************************)
(* Exhaustive model of Ownership.tla (C16): every history of               *)
(* new / clone / slice / wrap-in-array / export / import / stream / drop /  *)
(* in-place-mutate attempt / claim over a few regions and handle slots,    *)
(* i.e. every drop order and every interleaving of these steps (threads    *)
(* are interleaved atomic actions: the reference counts are atomics and    *)
(* each step below is one linearisation point).                            *)
(*                                                                         *)
(* `hist` records the calls that led to a state; it is hidden from the     *)
(* fingerprint (VIEW) and is what the GEN configuration prints as a        *)
(* behaviour to be replayed on the real objects.                           *)
(***************************************************************************)
EXTENDS Ownership, TLC, Json

CONSTANTS MaxAbs,      \* bound on stored values (in-place writes are +1 / bitwise not)
          GenDepth,    \* behaviours of this length are printed by the GEN configuration
          WithStreams, \* explore the C stream interface too (off in the quick model to keep it small)
          WithShrink,  \* explore Buffer::shrink_to_fit and empty prefix slices (multiplies the states by the capacities)
          WithNested   \* explore arrays of nested types over two custom regions (dictionary: keys + values)

VARIABLES st, hist

vars == <<st, hist>>

Least(P) == CHOOSE x \in P : \A y \in P : x <= y
FreeRegions == {r \in Regions : st.rg[r].kind = "free"}
FreeHandles == {x \in Handles : st.hd[x].kind = "none"}
LiveH == Live(st.hd)
IsBitmap(x) == st.rg[st.hd[x].refs[1]].bits

ValuesInit == <<0, 0>>
BitsInit == <<1, 0, 1, 1, 0, 1, 0, 1>>   \* one byte of validity bits
RegionSize == 64

Do(S, call) == st' = S /\ hist' = Append(hist, call)

Init == /\ st = [rg |-> [r \in Regions |-> NoRegion], hd |-> [x \in Handles |-> NoHandle], pool |-> 0]
        /\ hist = <<>>

A_New ==
  /\ FreeRegions # {} /\ FreeHandles # {}
  /\ \E kind \in {"std", "vec", "custom"} : \E bits \in BOOLEAN :
       /\ bits => kind = "std"
       /\ LET r == Least(FreeRegions) x == Least(FreeHandles) IN
          Do(New(st, r, kind, bits, IF bits THEN BitsInit ELSE ValuesInit, RegionSize, x),
             [op |-> "new", r |-> r, kind |-> kind, bits |-> bits, x |-> x])

(* a nested array (say a dictionary: keys region + values region)            *)
A_NewNested ==
  /\ WithNested /\ Cardinality(FreeRegions) >= 2 /\ FreeHandles # {}
  /\ LET r1 == Least(FreeRegions) r2 == Least(FreeRegions \ {r1}) x == Least(FreeHandles)
     IN Do(NewNested(st, <<r1, r2>>, x, <<7, 8>>), [op |-> "newn", rs |-> <<r1, r2>>, x |-> x])

A_Clone ==
  /\ FreeHandles # {}
  /\ \E x \in LiveH : st.hd[x].kind \in {"buffer", "array"} /\
       LET y == Least(FreeHandles) IN Do(Clone(st, x, y), [op |-> "clone", x |-> x, y |-> y])

A_Slice ==
  /\ FreeHandles # {}
  /\ \E x \in LiveH : \E o \in 0..1 : \E n \in 0..2 :
       /\ CanSlice(st, x, o, n) /\ ~IsBitmap(x) /\ <<o, n>> # <<0, st.hd[x].len>>
       /\ (n = 0 => WithShrink /\ st.hd[x].kind = "buffer" /\ o = 0 /\ st.hd[x].len > 0)     \* an empty prefix of a Buffer
       /\ LET y == Least(FreeHandles) IN Do(Slice(st, x, y, o, n), [op |-> "slice", x |-> x, y |-> y, o |-> o, n |-> n])

A_Wrap ==
  /\ FreeHandles # {}
  /\ \E x \in LiveH : CanWrap(st, x) /\
       LET y == Least(FreeHandles) IN Do(Wrap(st, x, y), [op |-> "wrap", x |-> x, y |-> y])

A_WrapN ==
  /\ FreeHandles # {}
  /\ \E xv \in LiveH : \E xn \in LiveH : CanWrapN(st, xv, xn) /\
       LET y == Least(FreeHandles) IN Do(WrapN(st, xv, xn, y), [op |-> "wrapn", x |-> xv, xn |-> xn, y |-> y])

A_Drop == \E x \in LiveH : Do(Drop(st, x), [op |-> "drop", x |-> x])

(* Buffer::into_mutable: succeeds iff unique, unsliced, standard             *)
A_IntoMutable ==
  \E x \in LiveH : st.hd[x].kind = "buffer" /\
     Do(IF BufferInPlaceOK(st, x) THEN BufferMutate(st, x) ELSE st, [op |-> "into_mutable", x |-> x])

(* Buffer::into_vec: may decline (layout), succeeds only when unique; the    *)
(* memory then belongs to a Vec and is no longer reserved in the pool        *)
A_IntoVec ==
  \E x \in LiveH : st.hd[x].kind = "buffer" /\ ~IsBitmap(x) /\
     Do(IF BufferInPlaceOK(st, x) /\ st.rg[st.hd[x].refs[1]].kind = "vec"
        THEN Unclaim(BufferMutate(st, x), st.hd[x].refs[1]) ELSE st, [op |-> "into_vec", x |-> x])

(* unary_mut / into_builder (all slots) and try_unary_mut (valid slots)      *)
NullCopyRegion(x) == IF NeedsNullCopy(st, x) THEN Least(FreeRegions) ELSE 0
A_ArrayMut ==
  \E x \in LiveH : \E validOnly \in BOOLEAN : st.hd[x].kind = "array" /\
     ~st.hd[x].nested /\
     IF ArrayInPlaceOK(st, x)
     THEN Do(ArrayMutate(st, x, validOnly, RegionSize), [op |-> IF validOnly THEN "try_unary_mut" ELSE "unary_mut", x |-> x, nr |-> 0])
     ELSE /\ (NeedsNullCopy(st, x) => FreeRegions # {})
          /\ Do(ArrayDecline(st, x, NullCopyRegion(x), RegionSize),
                [op |-> IF validOnly THEN "try_unary_mut" ELSE "unary_mut", x |-> x, nr |-> NullCopyRegion(x)])

(* try_unary_mut whose closure fails: the uniquely owned array is consumed   *)
A_TryErr ==
  \E x \in LiveH : st.hd[x].kind = "array" /\ ~st.hd[x].nested /\
     IF ArrayInPlaceOK(st, x)
     THEN Do(Drop(st, x), [op |-> "try_unary_mut_err", x |-> x, nr |-> 0])
     ELSE /\ (NeedsNullCopy(st, x) => FreeRegions # {})
          /\ Do(ArrayDecline(st, x, NullCopyRegion(x), RegionSize), [op |-> "try_unary_mut_err", x |-> x, nr |-> NullCopyRegion(x)])

(* BooleanBuffer ^= : in place when unique, else a copy in a fresh region    *)
A_Xor ==
  \E x \in LiveH : st.hd[x].kind = "buffer" /\
     IF BufferInPlaceOK(st, x)
     THEN Do(XorInPlace(st, x), [op |-> "xor", x |-> x, nr |-> 0])
     ELSE /\ FreeRegions # {}
          /\ LET nr == Least(FreeRegions) IN Do(XorCopy(st, x, nr, RegionSize), [op |-> "xor", x |-> x, nr |-> nr])

(* Buffer::shrink_to_fit                                                     *)
A_Shrink == WithShrink /\ \E x \in LiveH : st.hd[x].kind = "buffer" /\ Do(ShrinkToFit(st, x), [op |-> "shrink", x |-> x])

A_Claim == \E x \in LiveH : st.hd[x].kind \in {"buffer", "array"} /\ ~st.hd[x].nested /\ Do(Claim(st, x), [op |-> "claim", x |-> x])

A_Export ==
  /\ FreeRegions # {} /\ FreeHandles # {}
  /\ \E x \in LiveH : st.hd[x].kind = "array" /\ CanExport(st, x) /\
       LET e == Least(FreeHandles) nr == Least(FreeRegions)
       IN Do(Export(st, x, e, nr), [op |-> "export", x |-> x, e |-> e, nr |-> nr])

A_Import == \E e \in LiveH : CanImport(st, e) /\ Do(Import(st, e), [op |-> "import", e |-> e])

A_StreamExport ==
  /\ WithStreams /\ FreeHandles # {}
  /\ \E x \in LiveH : st.hd[x].kind = "array" /\ CanStreamExport(st, x) /\
       LET s == Least(FreeHandles) IN Do(StreamExport(st, x, s), [op |-> "stream_export", x |-> x, s |-> s])

A_StreamNext ==
  /\ FreeRegions # {} /\ FreeHandles # {}
  /\ \E s \in LiveH : CanStreamNext(st, s) /\
       LET y == Least(FreeHandles) nr == Least(FreeRegions)
       IN Do(StreamNext(st, s, y, nr), [op |-> "stream_next", s |-> s, y |-> y, nr |-> nr])

Next == \/ A_New \/ A_NewNested \/ A_Clone \/ A_Slice \/ A_Wrap \/ A_WrapN \/ A_Drop \/ A_IntoMutable \/ A_IntoVec
        \/ A_ArrayMut \/ A_TryErr \/ A_Xor \/ A_Shrink \/ A_Claim \/ A_Export \/ A_Import \/ A_StreamExport \/ A_StreamNext

Spec == Init /\ [][Next]_vars

---------------------------------------------------------------------------
(* stored values stay small (writes are +1 / not): bounds the state space    *)
Small == \A r \in Regions : \A i \in 1..Len(st.rg[r].mem) : st.rg[r].mem[i] \in (0 - MaxAbs)..MaxAbs

(* States are identified up to the numbering of the handle slots (the bag of *)
(* live handles) and up to what a released region used to hold               *)
HBag == LET H == {st.hd[x] : x \in LiveH} IN [h \in H |-> Cardinality({x \in LiveH : st.hd[x] = h})]
CanonRg == [r \in Regions |-> IF st.rg[r].kind # "free" /\ ~st.rg[r].alive
                               THEN [NoRegion EXCEPT !.kind = "dead", !.released = st.rg[r].released]
                               ELSE st.rg[r]]
View_ == <<CanonRg, HBag, st.pool>>

O1_NoDangling  == NoDangling(st)
O2_Immutable   == Immutable(st)
O3_ExactlyOnce == ExactlyOnce(st)
O4_PoolExact   == PoolExact(st)
O5_FfiMirror   == FfiMirror(st)

(* a region's content changes only in a step that starts with exactly one    *)
(* reference to it (the acting handle)                                       *)
WritesOnlyWhenUnique ==
  [][\A r \in Regions : (st.rg[r].alive /\ st'.rg[r].mem # st.rg[r].mem) => RC(st, r) = 1]_vars

(* what was released stays released, with the same count                     *)
ReleaseIsFinal ==
  [][\A r \in Regions : st.rg[r].released = 1 => (st'.rg[r].released = 1 /\ ~st'.rg[r].alive)]_vars

(* at the end (no handle left) everything created is released and the pool   *)
(* is empty                                                                  *)
QuiescentClean == LiveH = {} => (st.pool = 0 /\ \A r \in Created(st) : st.rg[r].released = 1)

---------------------------------------------------------------------------
(* GEN: print the behaviours of length GenDepth (BFS: one shortest history   *)
(* per distinct state at that depth; their prefixes cover the states above)  *)
GenBound == Len(hist) <= GenDepth
GenPrint == Len(hist) = GenDepth => PrintT("CASE " \o ToJson(hist))
=============================================================================
