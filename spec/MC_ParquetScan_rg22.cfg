SPECIFICATION Spec
CONSTANTS
  RgRows <- RgThorough
  MaxPreds = 1
  Offsets <- OffThorough
  Limits <- LimThorough
  BatchSizes = {1, 3}
  Policies = {"Selectors", "Mask", "Auto"}
  Threshold = 2
  NullPreds <- NullThorough
INVARIANTS S1_Prefix S1_Complete S2_Batches S2_Done S3_InBounds S4_ByGroup
CHECK_DEADLOCK FALSE
