-------------------------- MODULE Trace_Congruence --------------------------
(* impl -> spec (C02).  Event kinds:                                         *)
(*   obs      [k, o]            kernel observation (see Congruence.tla); the  *)
(*                              driver orders observations by key and routes  *)
(*                              a key to one shard, so the memo only needs    *)
(*                              the entries of the current key run            *)
(*   readback [via, src, got]   array built from `src`, read back as `got`    *)
(*   eq       [ta, a, tb, b, r] `==` on two arrays returned r                 *)
EXTENDS Congruence, TraceBase

VARIABLES l

(* Known finding: the strict cast Binary -> Utf8 validates the whole values   *)
(* buffer (bytes of other rows outside the slice, bytes under null slots), so *)
(* its success depends on bytes that are not part of the logical content.     *)
KF(ev) ==
  IF /\ ev.op = "obs" /\ ev.kernel = "cast_strict"
     /\ ev.ty \in {"Binary", "LargeBinary"} /\ ev.opts \in {"Utf8", "LargeUtf8", "Utf8View"}
     /\ Known(ev.k) /\ ("err" \in {memo[ev.k], ev.o})
  THEN "C02-strict-binary-to-utf8-validates-whole-buffer"
  (* Known finding (same root as C13-dictionary-cast-fails-on-unreferenced-value): a      *)
  (* strict cast of a dictionary array casts every dictionary value, referenced or not,  *)
  (* so its success depends on dictionary entries that no row holds                       *)
  ELSE IF /\ ev.op = "obs" /\ ev.kernel = "cast_strict" /\ ev.fam = "dict"
          /\ Known(ev.k) /\ ("err" \in {memo[ev.k], ev.o})
  THEN "C02-strict-dictionary-cast-depends-on-unreferenced-values"
  (* Known finding: `==` on dictionary arrays compares a null KEY and a valid key that  *)
  (* references a null dictionary VALUE as different, although both rows are null        *)
  ELSE IF /\ ev.op = "eq" /\ ev.fam = "dict" /\ ev.kvnull
          /\ ev.ta = ev.tb /\ ev.a = ev.b /\ ev.r = FALSE
  THEN "C02-dictionary-eq-null-value-vs-null-key"
  (* Known finding: `==` on sparse unions compares every child over the whole range,   *)
  (* i.e. also the slots of children that the type ids do not select                   *)
  ELSE IF /\ ev.op = "eq" /\ ev.fam = "union-sparse"
          /\ ev.ta = ev.tb /\ ev.a = ev.b /\ ev.r = FALSE
  THEN "C02-sparse-union-eq-compares-unselected-children"
  ELSE ""

Init2 == Init /\ l = 1

Obs(ev) ==
  (* keys arrive sorted: entries of other keys can never be asked again, so   *)
  (* the memo is restarted at each new key (keeps the state small)            *)
  LET m == IF Known(ev.k) THEN memo ELSE <<>> IN
  /\ JudgeKF(Known(ev.k) => memo[ev.k] = ev.o, l, <<"not a function of the logical input", ev.kernel>>, KF(ev))
  /\ memo' = [x \in {ev.k} |-> IF Known(ev.k) THEN memo[ev.k] ELSE ev.o]

Next == /\ l <= Len(Rec)
        /\ l' = l + 1
        /\ LET ev == Rec[l] IN
           CASE ev.op = "obs"      -> Obs(ev)
             [] ev.op = "readback" -> Judge(ReadBackOk(ev.src, ev.got), l, <<"readback", ev.via>>) /\ UNCHANGED memo
             [] ev.op = "eq"       -> JudgeKF(EqOk(ev.ta, ev.a, ev.tb, ev.b, ev.r), l, <<"eq", ev.via>>, KF(ev)) /\ UNCHANGED memo
TSpec == Init2 /\ [][Next]_<<memo, l>>
=============================================================================
