SPECIFICATION MCSpec
CONSTANTS
  RgRows <- MCRgRows
  NCols = 2
  Firsts <- MCFirsts
  HasDict <- MCHasDict
  HasIndex = FALSE
  MaxOdd = 1
  BatchSizes = {2, 3}
  InitBatch = {2}
  RgLists <- RgListsQuick
  Sels <- SelsTiny
  PredMasks <- MasksQuick
  Offsets <- OffsetsQuick
  Limits <- LimitsQuick
  Projs <- ProjsQuick
  PredCols = {1, 2}
  Modes = {"batch", "reader"}
  MaxPreds = 1
INVARIANTS D1_Prefix D1_Complete D2_InBounds D3_Bound D4_Covered D4_MaskChunks
PROPERTIES D3_Sufficient D6_Batches
CHECK_DEADLOCK FALSE
