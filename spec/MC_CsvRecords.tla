---------------------------- MODULE MC_CsvRecords ----------------------------
(* Exhaustive model of the CSV record machine: EVERY text of at most MaxLen *)
(* bytes over the classes Alphabet, EVERY chunking of it, batch sizes        *)
(* BatchSizes, NCols columns.  Empty chunks are not part of the protocol:   *)
(* an empty buffer tells the decoder that the input has ended.               *)
EXTENDS CsvRecords, TLC

CONSTANTS MaxLen, Alphabet, BatchSizes

MCInit ==
  /\ inb \in UNION {[1..n -> Alphabet] : n \in 0..MaxLen}
  /\ bs \in BatchSizes
  /\ cuts \in Chunkings(Len(inb))
  /\ s = Init0

MCSpec == MCInit /\ [][CNext]_cvars
=============================================================================
