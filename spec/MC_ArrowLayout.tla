--------------------------- MODULE MC_ArrowLayout ---------------------------
(***************************************************************************)
(* Bounded exhaustive check of ArrowLayout.tla itself (design sanity,      *)
(* shared by C01 / C09).  A small universe of layouts per type family,     *)
(* well-formed or not, is enumerated; for every layout:                    *)
(*                                                                         *)
(*   Judge / Reject   WellFormed(d) is evaluated (it must be total: an     *)
(*                    evaluation error of TLC fails the run)               *)
(*   well-formed  =>  Logical(d) is *defined* (every read it performs is   *)
(*                    inside a buffer / a child: `Cell`, `Bytes`, `Row`    *)
(*                    raise a TLC error otherwise) and has d.len rows      *)
(*   SliceIt          every format-level slice of a well-formed layout is  *)
(*                    well-formed and denotes the sub-sequence of rows     *)
(*                    (WellFormed is closed under slicing)                 *)
(***************************************************************************)
EXTENDS ArrowLayout, TLC

CONSTANTS MaxLen,      \* array length 0..MaxLen
          MaxOff,      \* array offset 0..MaxOff
          OffVals,     \* alphabet of offsets / sizes / keys / dense offsets / run ends
          MaxData      \* utf8 data bytes 0..MaxData

OffValsQuick == {-1, 0, 1, 2}          \* (cfg files cannot spell negative numbers)
OffValsThorough == {-1, 0, 1, 2, 3}

VARIABLES d, step, want
vars == <<d, step, want>>

Min(a, b) == IF a < b THEN a ELSE b
Max(a, b) == IF a > b THEN a ELSE b
SeqsOf(S, n) == [1..n -> S]
SeqsUpTo(S, n) == UNION {SeqsOf(S, k) : k \in 0..n}

T(k, w, size, mode, ids, s, kt) ==
  [k |-> k, w |-> w, size |-> size, mode |-> mode, ids |-> ids, s |-> s, kt |-> kt, cn |-> <<>>, mk |-> FALSE, ok |-> TRUE]

Buf(nbytes, amod, ints) == [nbytes |-> nbytes, amod |-> amod, base |-> 0, ints |-> ints]
NoNulls == [present |-> FALSE, nbits |-> 0, boff |-> 0, bits |-> <<>>, nc |-> 0]

(* validity bitmaps for (len, off): absent, or present with every bit pattern, *)
(* an exact or one-bit-short bitmap, an exact or off-by-one null count        *)
NullsSet(len, off) ==
  {NoNulls} \cup
  UNION { { [present |-> TRUE, nbits |-> nb, boff |-> off, bits |-> b, nc |-> c] :
              c \in {Zeros(b), Zeros(b) + 1} } :
          nb \in {off + len, Max(off + len - 1, 0)}, b \in SeqsOf({0, 1}, len) }
(* a smaller choice for families whose point is not the bitmap *)
FewNulls(len, off) ==
  {NoNulls} \cup { [present |-> TRUE, nbits |-> off + len, boff |-> off, bits |-> b, nc |-> Zeros(b)] : b \in SeqsOf({0, 1}, len) }

L(t, len, off, nulls, bufs, kids) ==
  [t |-> t, len |-> len, offset |-> off, lo_ovf |-> FALSE, nulls |-> nulls, bufs |-> bufs, kids |-> kids]

Shapes == {<<len, off>> : len \in 0..MaxLen, off \in 0..MaxOff}

(* Each family is a predicate "x is one of the family's layouts" written with  *)
(* nested quantifiers, so that TLC enumerates the initial states directly       *)
(* instead of first building (and normalising) one huge set of records.         *)

(* ---- primitive / boolean / fixed-size binary ------------------------------ *)
TInt(w) == T("prim", w, 0, "", <<>>, "int" \o ToString(w), <<>>)
PrimU(x) ==
  \E w \in {1, 4}, sh \in Shapes :
    \E nb \in {Max((sh[1] + sh[2]) * w - 1, 0), (sh[1] + sh[2]) * w, (sh[1] + sh[2]) * w + w},
       am \in {0, 1}, n \in NullsSet(sh[1], sh[2]) :
      x = L(TInt(w), sh[1], sh[2], n, <<Buf(nb, am, <<>>)>>, <<>>)
BoolU(x) ==
  \E sh \in Shapes : \E nb \in 0..2, n \in FewNulls(sh[1], sh[2]) :
    x = L(T("bool", 0, 0, "", <<>>, "bool", <<>>), sh[1], sh[2], n, <<Buf(nb, 0, <<>>)>>, <<>>)
FsbU(x) ==
  \E sz \in 0..2, sh \in Shapes : \E nb \in 0..((sh[1] + sh[2]) * sz + 1) :
    x = L(T("fsb", 0, sz, "", <<>>, "fsb" \o ToString(sz), <<>>), sh[1], sh[2], NoNulls, <<Buf(nb, 1, <<>>)>>, <<>>)
NullU(x) ==
  \E sh \in Shapes, n \in FewNulls(1, 0) : x = L(T("null", 0, 0, "", <<>>, "null", <<>>), sh[1], sh[2], n, <<>>, <<>>)

(* small children: well-formed integer arrays of every length, and a broken one *)
Kid(len) == L(TInt(4), len, 0, NoNulls, <<Buf(4 * len, 0, <<>>)>>, <<>>)
KidNulls(len) == L(TInt(4), len, 0, [present |-> TRUE, nbits |-> len, boff |-> 0, bits |-> [i \in 1..len |-> i % 2], nc |-> len \div 2],
                   <<Buf(4 * len, 0, <<>>)>>, <<>>)
BadKid == L(TInt(4), 2, 0, NoNulls, <<Buf(7, 0, <<>>)>>, <<>>)
Kids == {Kid(n) : n \in 0..(MaxLen + MaxOff + 1)} \cup {KidNulls(2), BadKid}

(* ---- binary / utf8 --------------------------------------------------------- *)
DataSeqs == SeqsUpTo({65, 195, 169}, MaxData)            \* "A", and the two bytes of U+00E9
OffsetLens(sh) == {0, sh[1] + sh[2], sh[1] + sh[2] + 1}
AllNull(sh) == [present |-> TRUE, nbits |-> sh[1] + sh[2], boff |-> sh[2], bits |-> [i \in 1..sh[1] |-> 0], nc |-> sh[1]]
BinLike(x, k) ==
  \E sh \in Shapes : \E ol \in OffsetLens(sh) : \E o \in SeqsOf(OffVals, ol), b \in DataSeqs, n \in {NoNulls, AllNull(sh)} :
    x = L(T(k, 4, 0, "", <<>>, k, <<>>), sh[1], sh[2], n, <<Buf(4 * Len(o), 0, o), Buf(Len(b), 0, b)>>, <<>>)
Utf8U(x) == BinLike(x, "utf8")
BinU(x) == BinLike(x, "bin")

(* ---- views ------------------------------------------------------------------ *)
Pad(b) == b \o [i \in 1..(12 - Len(b)) |-> 0]
ViewData == <<48, 49, 50, 51, 52, 53, 54, 55, 56, 57, 97, 98, 99, 195, 169, 100>>     \* "0123456789abc" U+00E9 "d"
View(len, b, bi, off) == [len |-> len, b |-> b, bi |-> bi, off |-> off]
ViewAlphabet ==
  { View(0, Pad(<<>>), 0, 0),                                  \* empty
    View(2, Pad(<<195, 169>>), 0, 0),                          \* inline, valid UTF-8
    View(1, Pad(<<195>>), 0, 0),                               \* inline, truncated UTF-8 (binary: fine)
    View(1, <<65, 0, 0, 0, 0, 0, 0, 0, 0, 0, 0, 7>>, 0, 0),    \* inline, non-zero padding
    View(13, <<48, 49, 50, 51, 0, 0, 0, 0, 0, 0, 0, 0>>, 0, 0),   \* long, whole string "0123456789abc"
    View(14, <<48, 49, 50, 51, 0, 0, 0, 0, 0, 0, 0, 0>>, 0, 0),   \* long, ends inside U+00E9
    View(13, <<51, 52, 53, 54, 0, 0, 0, 0, 3, 0, 0, 0>>, 0, 3),   \* long, offset 3, ends exactly at the buffer end
    View(14, <<51, 52, 53, 54, 0, 0, 0, 0, 3, 0, 0, 0>>, 0, 3),   \* one byte past the buffer
    View(13, <<48, 49, 50, 52, 0, 0, 0, 0, 0, 0, 0, 0>>, 0, 0),   \* prefix mismatch
    View(13, <<48, 49, 50, 51, 1, 0, 0, 0, 0, 0, 0, 0>>, 1, 0) }  \* buffer index past the end
ViewLike(x, k) ==
  \E sh \in Shapes : \E vs \in SeqsOf(ViewAlphabet, sh[1]), short \in {0, 1} :
    x = L(T(k, 0, 0, "", <<>>, k, <<>>), sh[1], sh[2], NoNulls,
          <<Buf(Max(16 * (sh[1] + sh[2]) - short, 0), 0, <<>>), Buf(16, 0, ViewData)>>, <<>>) @@ [views |-> vs]
ViewU(x) == ViewLike(x, "utf8view") \/ ViewLike(x, "binview")

(* ---- list / list-view / fixed-size list / struct ---------------------------- *)
TList(kt) == T("list", 4, 0, "", <<>>, "list", <<kt>>)
ListU(x) ==
  \E sh \in Shapes : \E ol \in OffsetLens(sh) : \E o \in SeqsOf(OffVals, ol), kid \in {<<y>> : y \in Kids} \cup {<<>>, <<Kid(1), Kid(1)>>} :
    x = L(TList("int4"), sh[1], sh[2], NoNulls, <<Buf(4 * Len(o), 0, o)>>, kid)
TLv == T("listview", 4, 0, "", <<>>, "listview", <<"int4">>)
ListViewU(x) ==
  \E sh \in Shapes : \E o \in SeqsOf(OffVals, sh[1] + sh[2]), s \in SeqsOf(OffVals, sh[1] + sh[2]), y \in {Kid(0), Kid(2)} :
    x = L(TLv, sh[1], sh[2], NoNulls, <<Buf(4 * Len(o), 0, o), Buf(4 * Len(s), 0, s)>>, <<y>>)
FslU(x) ==
  \E sz \in 0..2, sh \in Shapes : \E y \in Kids, n \in FewNulls(sh[1], sh[2]) :
    x = L(T("fsl", 0, sz, "", <<>>, "fsl", <<"int4">>), sh[1], sh[2], n, <<>>, <<y>>)
StructU(x) ==
  \/ \E sh \in Shapes : \E ks \in SeqsUpTo(Kids, 2), n \in FewNulls(sh[1], sh[2]) :
       x = L(T("struct", 0, 0, "", <<>>, "struct", [i \in 1..Len(ks) |-> "int4"]), sh[1], sh[2], n, <<>>, ks)
  \/ x = L(T("struct", 0, 0, "", <<>>, "struct", <<"int1">>), 1, 0, NoNulls, <<>>, <<Kid(1)>>)     \* child of another type

(* ---- dictionary -------------------------------------------------------------- *)
DictU(x) ==
  \E sh \in Shapes : \E ks \in SeqsOf(OffVals, sh[1] + sh[2]), y \in {Kid(0), Kid(1), Kid(2)}, n \in FewNulls(sh[1], sh[2]) :
    x = L(T("dict", 4, 0, "", <<>>, "dict", <<"int4">>), sh[1], sh[2], n, <<Buf(4 * Len(ks), 0, ks)>>, <<y>>)

(* ---- run-end encoded ---------------------------------------------------------- *)
Ends(e, nulls) == L(TInt(4), Len(e), 0, nulls, <<Buf(4 * Len(e), 0, e)>>, <<>>)
ReeU(x) ==
  \E sh \in Shapes : \E e \in SeqsUpTo(OffVals, 3), vl \in 0..3,
                       n \in {NoNulls, [present |-> TRUE, nbits |-> 3, boff |-> 0, bits |-> <<1, 1, 1>>, nc |-> 0]} :
    x = L(T("ree", 4, 0, "", <<>>, "ree", <<"int4", "int4">>), sh[1], sh[2], NoNulls, <<>>, <<Ends(e, n), Kid(vl)>>)

(* ---- unions --------------------------------------------------------------------- *)
UnionU(x) ==
  \/ \E sh \in Shapes : \E ts \in SeqsOf({0, 5, 1}, sh[1] + sh[2]), a \in 1..3, b \in {0, 3} :
       x = L(T("union", 0, 0, "sparse", <<0, 5>>, "sunion", <<"int4", "int4">>), sh[1], sh[2], NoNulls,
             <<Buf(Len(ts), 0, ts)>>, <<Kid(a), Kid(b)>>)
  \/ \E sh \in Shapes : \E ts \in SeqsOf({0, 5, 1}, sh[1] + sh[2]), os \in SeqsOf(OffVals, sh[1] + sh[2]), a \in {1, 2}, b \in {0, 2} :
       x = L(T("union", 0, 0, "dense", <<0, 5>>, "dunion", <<"int4", "int4">>), sh[1], sh[2], NoNulls,
             <<Buf(Len(ts), 0, ts), Buf(4 * Len(os), 0, os)>>, <<Kid(a), Kid(b)>>)

InUniverse(x) == \/ PrimU(x) \/ BoolU(x) \/ FsbU(x) \/ NullU(x) \/ Utf8U(x) \/ BinU(x) \/ ViewU(x) \/ ListU(x)
                 \/ ListViewU(x) \/ FslU(x) \/ StructU(x) \/ DictU(x) \/ ReeU(x) \/ UnionU(x)

(***************************************************************************)
Init == step = "new" /\ want = <<>> /\ InUniverse(d)

Judge == step = "new" /\ WellFormed(d) /\ step' = "wf" /\ UNCHANGED <<d, want>>
Reject == step = "new" /\ ~WellFormed(d) /\ step' = "bad" /\ UNCHANGED <<d, want>>
SliceIt == /\ step = "wf"
           /\ \E o \in 0..d.len : \E n \in 0..(d.len - o) :
                /\ d' = SliceOf(d, o, n)
                /\ want' = SubSeq(Logical(d), o + 1, o + n)
           /\ step' = "sliced"
Next == Judge \/ Reject \/ SliceIt
Spec == Init /\ [][Next]_vars

(* a well-formed layout denotes d.len rows, and all reads of the denotation are in bounds *)
LogicalDefined == step \in {"wf", "sliced"} => Len(Logical(d)) = d.len
(* closed under slicing, and the slice denotes the sub-sequence *)
SliceClosed == step = "sliced" => (WellFormed(d) /\ Logical(d) = want)
(* relaxations only relax *)
RelaxMonotone == step = "wf" => \A r \in {"fsl-offset", "struct-offset", "ree-cover", "union-ids", "union-kid-types"} : WF(d, {r})
(* alignment-insensitive judgement only ignores alignment *)
RealignOK == step = "wf" => WellFormedModAlign(d)
=============================================================================
