------------------------------- MODULE Select -------------------------------
(***************************************************************************)
(* Selection kernels of arrow-select as operators on logical columns (C03). *)
(*                                                                         *)
(* A logical column is the sequence of its row values; a row value is an   *)
(* opaque token (a string computed by the harness from the public          *)
(* accessors), NullTok for a null row.  Masks are sequences over           *)
(* {0, 1, 2}: 0 = false, 1 = true, 2 = null.  Indices are integers,        *)
(* -1 = null index.                                                        *)
(*                                                                         *)
(* The definitions are the naive row-by-row ones of the kernel             *)
(* documentation (DESIGN.md appendix A pins the corner cases).             *)
(***************************************************************************)
EXTENDS Naturals, Integers, Sequences

NullTok == "~"

Err == [err |-> TRUE]                 \* outcome of a kernel that must fail
Ok(rows) == [err |-> FALSE, rows |-> rows]

RECURSIVE FilterFrom(_, _, _)
FilterFrom(rows, mask, i) ==
  IF i > Len(rows) THEN <<>>
  ELSE (IF i <= Len(mask) /\ mask[i] = 1 THEN <<rows[i]>> ELSE <<>>) \o FilterFrom(rows, mask, i + 1)

(* filter: a predicate shorter than the array is legal (rows past its end    *)
(* are not selected); null predicate = not selected                          *)
Filter(rows, mask) ==
  IF Len(mask) > Len(rows) THEN Err ELSE Ok(FilterFrom(rows, mask, 1))

CountSel(mask) == Len(FilterFrom(mask, mask, 1))

(* take: null index => null row; out of range => error (check_bounds)        *)
TakeN(rows, idx, nulltok) ==
  IF \E j \in 1..Len(idx) : idx[j] # -1 /\ (idx[j] < 0 \/ idx[j] >= Len(rows)) THEN Err
  ELSE Ok([j \in 1..Len(idx) |-> IF idx[j] = -1 THEN nulltok ELSE rows[idx[j] + 1]])
Take(rows, idx) == TakeN(rows, idx, NullTok)

(* the token of an all-null row of a record batch with n columns             *)
RECURSIVE NullRow(_)
NullRow(n) == IF n <= 1 THEN NullTok ELSE NullTok \o "|" \o NullRow(n - 1)

RECURSIVE ConcatAll(_)
ConcatAll(cols) == IF cols = <<>> THEN <<>> ELSE Head(cols) \o ConcatAll(Tail(cols))

(* interleave: pairs <<array index, row index>>, both 0-based                *)
Interleave(cols, pairs) ==
  IF \E j \in 1..Len(pairs) : pairs[j][1] >= Len(cols) \/ pairs[j][2] >= Len(cols[pairs[j][1] + 1]) THEN Err
  ELSE Ok([j \in 1..Len(pairs) |-> cols[pairs[j][1] + 1][pairs[j][2] + 1]])

(* zip: mask true => truthy row, false or null => falsy row; a scalar is a   *)
(* one-row column broadcast to the mask length                               *)
Bcast(col, scalar, n) == IF scalar THEN [i \in 1..n |-> col[1]] ELSE col
Zip(mask, a, aScalar, b, bScalar) ==
  LET n == Len(mask)
      aa == Bcast(a, aScalar, n)
      bb == Bcast(b, bScalar, n)
  IN IF Len(aa) # n \/ Len(bb) # n THEN Err
     ELSE Ok([i \in 1..n |-> IF mask[i] = 1 THEN aa[i] ELSE bb[i]])

(* nullif: null where left is null or right is true                          *)
NullIf(rows, mask) ==
  IF Len(mask) # Len(rows) THEN Err
  ELSE Ok([i \in 1..Len(rows) |-> IF mask[i] = 1 THEN NullTok ELSE rows[i]])

(* shift by k (k > 0: towards higher indices), vacated rows are null         *)
Shift(rows, k) ==
  LET n == Len(rows) IN
  Ok([i \in 1..n |-> IF i - k >= 1 /\ i - k <= n THEN rows[i - k] ELSE NullTok])

Slice(rows, o, n) == IF o + n > Len(rows) THEN Err ELSE Ok(SubSeq(rows, o + 1, o + n))

(* merge_n / merge: result row i comes from values[idx[i]] consumed in order;*)
(* idx[i] = -1 => null row                                                   *)
RECURSIVE MergeFrom(_, _, _, _)
MergeFrom(cols, idx, i, used) ==
  IF i > Len(idx) THEN <<>>
  ELSE IF idx[i] = -1 THEN <<NullTok>> \o MergeFrom(cols, idx, i + 1, used)
  ELSE LET c == idx[i] + 1 IN
       <<cols[c][used[c] + 1]>> \o MergeFrom(cols, idx, i + 1, [used EXCEPT ![c] = @ + 1])

(* the outcome reported by the implementation against the specified one      *)
Agrees(expected, gotErr, gotRows) ==
  IF expected.err THEN gotErr ELSE (~gotErr /\ gotRows = expected.rows)
=============================================================================
