#!/bin/sh
# usage: tvsum.sh <Trace module> <files...> : run TV on files in parallel and summarize
mod=$1; shift
export JAVA_TOOL_OPTIONS="-Xss1g -Dtlc2.tool.queue.IStateQueue=StateDeque"
cd /verif/spec
for f in "$@"; do
  ( TRACE=$f timeout 600 java -XX:+UseSerialGC -Xmx3g -cp /opt/veriftools/tla/tla2tools.jar:/opt/veriftools/tla/CommunityModules-deps.jar tlc2.TLC -workers 1 -metadir /verif/work/md_$$_$(basename $f) -noGenerateSpecTE -config $mod.cfg $mod.tla 2>&1 | grep -E 'REJECT|KNOWN|Error|violated|UNCONSUMED' | cut -c1-220 | sed "s|^|$(basename $f): |" ; rm -rf /verif/work/md_$$_$(basename $f) ) &
done
wait
